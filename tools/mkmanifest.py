#!/usr/bin/env python3
"""Regenerates MANIFEST.json from the table below (keeps it valid at all times)."""
import json, os
V = os.path.dirname(os.path.dirname(os.path.abspath(__file__)))
props = [json.loads(l) for l in open(os.path.join(V, 'properties.jsonl'))]
TECH = 'bounded symbolic execution of the real template instantiations: clang-14 LLVM IR -> own IR->C translator -> CBMC 6.11 (SAT) decides every assertion for all input values within stated bounds; counterexamples replayed natively (ASan/UBSan)'
NOTE = ('Trusted base: clang-14 -O1 lowering, vlib/ir2c.py (validated on every run by a differential run of the gcc-built generated C '
        'against the g++-built harness on shared input tapes, and by native replay of every counterexample), CBMC/MiniSat/kissat, '
        'rt/prelude.c stubs (operator new/delete never fail; abort/throw = violation). Bounds (unwind, lengths, counts, steps) are '
        'listed per harness in the evidence; unwinding assertions are on, so a too-small bound is reported as inconclusive, not as a pass.')
CLAIMED = {}
exec(open(os.path.join(V, 'tools', 'claims.py')).read())
m = {"version": 1, "setup_cmd": "true",
     "hooks": {"guard": "LIBNOP_VERIF", "enable": "harness TUs are compiled against /repo/include with -DLIBNOP_VERIF; no source hook exists in /repo (nothing is guarded)",
               "baseline_off_cmd": "make -C /repo -j8 out/test && /repo/out/test", "source_commits": [], "add_only": True},
     "engines": [{"name": "ir2c+cbmc", "path": "vlib/", "serves_properties": sorted(CLAIMED), "kind_free_text": "LLVM-IR-to-C translator + CBMC bounded model checker (SAT), native replay"}],
     "checks": [], "not_applicable": [],
     "notes": "All checks: ./check <ID> [--tier quick|thorough]; replay: ./check <ID> --replay <file>. Genuine defects repaired by fix: commits are listed in known_findings.json."}
for p in props:
    i = p['id']
    if i in CLAIMED:
        c = CLAIMED[i]
        m['checks'].append({"property_id": i, "quick_cmd": "./check %s --tier quick" % i, "thorough_cmd": "./check %s --tier thorough" % i,
                            "evidence_file": "evidence/%s.json" % i, "replay_cmd_template": "./check %s --replay {path}" % i, "engine": "ir2c+cbmc",
                            "level_claimed": {"category": "model_checking", "text": c['text'], "design_ref": c.get('ref', 'DESIGN.md section 2, ' + i)},
                            "level_note": NOTE + ' ' + c.get('note', ''), "technique": c.get('technique', TECH)})
    else:
        m['not_applicable'].append({"property_id": i, "reason": NA.get(i, "check not built yet (build in progress)")})
json.dump(m, open(os.path.join(V, 'MANIFEST.json'), 'w'), indent=1)
print('claimed', sorted(CLAIMED), 'n/a', [x['property_id'] for x in m['not_applicable']])

#!/bin/bash
# tools/seedtest.sh <patch.diff> <ID> [<ID>...]  : apply a seeded change to /repo, run the quick checks, restore /repo.
P=$1; shift
cd /repo || exit 9
if [ -n "$(git status --porcelain --untracked-files=no)" ]; then echo "/repo not clean"; exit 9; fi
git apply "$P" || { echo "patch does not apply"; exit 9; }
cd /verif
# the check rewrites evidence/<id>.json; evidence kept in /verif must come from the unchanged tree
EV=$(mktemp -d); for id in "$@"; do cp evidence/$id.json $EV/ 2>/dev/null; done
trap 'git -C /repo checkout -- . ; cp $EV/*.json /verif/evidence/ 2>/dev/null; rm -rf $EV' EXIT
for id in "$@"; do
  ./check $id --tier ${TIER:-quick} > /tmp/seedtest_$id.log 2>&1; rc=$?
  echo "== $id rc=$rc"; grep -E "^(VIOLATION|KNOWN-FINDING|\[$id\] INCONCLUSIVE)" /tmp/seedtest_$id.log | head -8
  grep -A1 "^VIOLATION" /tmp/seedtest_$id.log | grep harness= | head -4
done

#!/usr/bin/env python3
"""tools/run_seeds.py [name ...]: for every seeded change under /verif/seeded/<name>/ apply patch.diff to /repo, run the quick
   check of the property it breaks (meta.json 'property', plus 'also' if present), restore /repo, record the outcome in
   /verif/seeded/results.json.  Never leaves /repo modified."""
import json, os, subprocess, sys, time
V = os.path.dirname(os.path.dirname(os.path.abspath(__file__)))
S = os.path.join(V, 'seeded')
def sh(cmd, **kw): return subprocess.run(cmd, shell=True, stdout=subprocess.PIPE, stderr=subprocess.STDOUT, **kw)
def main():
    names = sys.argv[1:] or sorted(d for d in os.listdir(S) if os.path.isdir(os.path.join(S, d)) and not d.startswith('_'))
    resf = os.path.join(S, 'results.json')
    res = json.load(open(resf)) if os.path.exists(resf) else {}
    if sh('git -C /repo status --porcelain --untracked-files=no').stdout.strip():
        print('/repo not clean'); sys.exit(9)
    for n in names:
        d = os.path.join(S, n); meta = json.load(open(os.path.join(d, 'meta.json')))
        props = [meta['property']] + meta.get('also', [])
        r = sh('git -C /repo apply %s' % os.path.join(d, 'patch.diff'))
        if r.returncode != 0:
            res[n] = {'applied': False}; print(n, 'PATCH DOES NOT APPLY'); continue
        out = {}
        # the check rewrites evidence/<p>.json; evidence kept in /verif must come from the unchanged tree
        saved = {p: open(os.path.join(V, 'evidence', p + '.json'), 'rb').read() for p in props if os.path.exists(os.path.join(V, 'evidence', p + '.json'))}
        try:
            for p in props:
                t0 = time.time()
                c = sh('cd %s && ./check %s --tier %s' % (V, p, os.environ.get('TIER', 'quick')))
                txt = c.stdout.decode('utf-8', 'replace')
                viol = [l for l in txt.split('\n') if l.startswith('VIOLATION')]
                harn = sorted({l.split('harness=')[1].split()[0] for l in txt.split('\n') if 'harness=' in l})
                out[p] = {'rc': c.returncode, 'violations': len(viol), 'harnesses': harn[:6], 'wall_s': round(time.time() - t0)}
                print(n, p, 'rc=%d' % c.returncode, 'violations=%d' % len(viol), harn[:3], flush=True)
        finally:
            sh('git -C /repo checkout -- .')
            for p, b in saved.items(): open(os.path.join(V, 'evidence', p + '.json'), 'wb').write(b)
        res[n] = {'applied': True, 'head': sh('git -C /repo rev-parse --short HEAD').stdout.decode().strip(), 'checks': out,
                  'detected': any(v['rc'] == 1 for v in out.values())}
        json.dump(res, open(resf, 'w'), indent=1, sort_keys=True)
    sh('find %s/replays -name "*.json" -delete' % V)
main()

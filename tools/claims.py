NA = {}
CLAIMED['C20'] = {'text': 'Bounded model checking, complete over the value space: for each of 14 integral and floating-point types the argument is one fully symbolic machine word (all 2^64 patterns for 64-bit types, NaN payloads included); CBMC proves FromLittle/ToLittle = identity, FromBig/ToBig = byte reversal (independent byte-loop oracle) and To/From inverse on a little-endian host. The tests pin ~4 literals per type.',
                  'note': 'Big-endian hosts are outside the bound (single target).'}

#!/bin/bash
# tools/confirm_seed.sh <incoming dir containing patch.diff demo.cpp meta.json> : independent confirmation in a scratch worktree
D=$(realpath $1); N=$(echo $D | tr '/' '_'); W=/tmp/confirm$N
rm -rf $W; git -C /repo worktree add --detach $W HEAD >/dev/null 2>&1 || { echo "worktree failed"; exit 9; }
res=$D/confirm.txt; : > $res
cd $W
g++ -std=c++14 -I$W/include $D/demo.cpp -o $W/demo_clean -lpthread >/dev/null 2>$W/demo_clean.err && { ./demo_clean >/dev/null 2>&1; echo "demo_clean_rc=$?" >> $res; } || echo "demo_clean_rc=build-failed" >> $res
if git apply $D/patch.diff 2>/dev/null; then echo "apply=ok" >> $res; else echo "apply=FAILED" >> $res; fi
make -j4 out/test >/dev/null 2>$W/build.err && { ./out/test 2>&1 | tail -1 | sed 's/^/tests=/' >> $res; } || echo "tests=build-failed" >> $res
g++ -std=c++14 -I$W/include $D/demo.cpp -o $W/demo_mut -lpthread >/dev/null 2>&1 && { timeout 120 ./demo_mut >/dev/null 2>&1; echo "demo_mut_rc=$?" >> $res; } || echo "demo_mut_rc=build-failed" >> $res
echo "head=$(git -C /repo rev-parse --short HEAD)" >> $res
cd /; git -C /repo worktree remove --force $W; rm -rf $W
echo "$1: $(tr '\n' ' ' < $res)"

def setup(chk):
    chk.add_tu('C13.cpp')
    chk.add_tu('C13x.cpp')   # element constructors that throw: TU lowered with exceptions, translator's exception model
    chk.extra_evidence.update({
        'bounds_text': 'Optional<Tr>, Entry<Tr,7>, Optional<u32>, Entry<u32,1>, Result<Err,Tr>, Result<Err,u32>, Status<void>: 2 objects + spare slot in arbitrary valid states, 10-11 operation kinds (construct, in-place, copy, move, assign value/Optional/error, clear, take, swap, destroy), K=1 step and K=2 (quick) / K=3 (thorough); all 18 comparison operators with symbolic emptiness and int32 values; GetErrorMessage for all 19 ErrorStatus values',
        'outside_bounds': ['throwing constructors inside Optional in-place/value construction (unconditionally noexcept storage constructor: std::terminate by design)', 'initializer_list constructors'],
        'assumes': ['model state = (engaged, payload) resp. (empty|error|value, payload); live tracked values == engaged holders']})

def setup(chk):
    chk.add_tu('C15_mc.cpp')
    chk.add_tu('C15.cpp')
    chk.extra_evidence.update({'bounds_text': 'values with 1..3 handles at: structure member, Optional, std::array<Handle,2>, Variant alternative, table entry (directly and inside a structure in an entry; through the internal BoundedWriter/BoundedReader); handle values empty / 3 resources; the references handed out by the writer are arbitrary non-negative 63-bit values (symbolic); type tags 0 and 5; every wrong type tag < 0x80; every resolver error code; UniqueHandle with a counting policy: arbitrary valid start states of two handles, one step / 3 (quick) / 5 (thorough) steps out of {move-construct, move-assign incl. self, release, close, destroy, new resource, inspect}',
      'outside_bounds': ['std::vector<Handle> (heap)', 'FileHandle / real file descriptors']})

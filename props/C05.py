def setup(chk):
    chk.add_tu('C05.cpp')
    chk.add_tu('C05x.cpp')
    if chk.tier == 'thorough':
        import glob, os
        here = os.path.dirname(os.path.dirname(os.path.abspath(__file__)))
        for f in sorted(glob.glob(os.path.join(here, 'h/C05t*.cpp'))):
            chk.add_tu(os.path.basename(f))
    chk.extra_evidence.update({'bounds_text': 'every core-pool type, every value (reference encoding, proved byte-identical to the library encoder in C03), every cut position k < length (symbolic), bytes behind the cut arbitrary; readers Buffer, Pedantic, Stream(model), Fd(model), Bounded over Pedantic/Buffer/Stream (quick: 2 readers per type by rotation; thorough: all); table part: two-entry table with 0..3 padding bytes per entry read by definitions that lack / have deleted the first or the last entry (cut inside skipped entries and inside padding)',
      'outside_bounds': ['heap containers', 'real std::istream / kernel fds (models, validated natively)'],
      'assumes': ['stream model: seeking outside [0,size] fails with failbit (stringbuf semantics); fd model: read returns 0 at end of file']})

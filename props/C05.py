def setup(chk):
    chk.add_tu('C05.cpp')
    if chk.tier == 'thorough':
        chk.add_tu('C05t.cpp')

def setup(chk):
    chk.add_tu('C10.cpp')
    chk.add_tu('C10h.cpp')   # table entries of std::vector / std::string: the fault may land on Ensure()
    chk.extra_evidence.update({'bounds_text': 'every core-pool type (incl. tables: errors cross the internal BoundedWriter/BoundedReader) + a structure with Handle and Optional<Handle>; values symbolic; the fault position k is ONE symbolic byte (so every call index of every operation is covered in a single query, k beyond the last call = no fault) and the error is any of the 18 non-None codes; reads run over the reference encoding of a symbolic value',
      'outside_bounds': ['heap containers', 'RPC sender/receiver (C14)', 'two faults in one operation (the operation stops at the first)']})

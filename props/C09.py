def setup(chk):
    chk.add_tu('C09.cpp')
    chk.extra_evidence.update({'bounds_text': '41 types from the grammar {integers, value wrappers (nested), structures, pair/tuple, std::array / C arrays of integral, wrapper and structure elements, logical buffers (u8/u32 size members, capacities 3 and 5, wrapper elements), Optional, Result, Variant, tables (fungible entries, other hash, deleted entry)} to nesting depth 2; trait table of all 1681 ordered pairs evaluated by the C++ compiler (reflexive, symmetric, documented pairs true); for EVERY ordered pair with IsFungible true the wire harness is decided by the solver for all values of A',
      'outside_bounds': ['heap containers (vector <-> array / logical buffer) and maps', 'trait evaluation itself is done by the compiler, not the solver (the solver sees constants)', 'types beyond nesting depth 2'],
      'explanation_trait': 'IsFungible is a compile-time relation; its truth table over the bounded grammar is enumerated exhaustively by the compiler and asserted as constants.'})
    # The trait is a compile-time constant: ask the compiler which ordered pairs are fungible and decide exactly those
    # wire harnesses with the solver (the others have a trivial body).
    import os, subprocess, sys
    sys.path.insert(0, os.path.join(os.path.dirname(os.path.dirname(os.path.abspath(__file__))), 'vlib'))
    import runner
    bdir = os.path.join(runner.VERIF, 'build', 'C09'); os.makedirs(bdir, exist_ok=True)
    exe = os.path.join(bdir, 'print_fungible')
    stub = os.path.join(bdir, 'stub.cpp')
    open(stub, 'w').write('#include <cstdint>\n#include <cstddef>\nextern "C" { std::uint8_t nondet_u8(){return 0;} std::uint16_t nondet_u16(){return 0;} std::uint32_t nondet_u32(){return 0;} std::uint64_t nondet_u64(){return 0;}\n void vassert(int,int){} void vassume(int){} void vrt_end(){} void vrt_observe(std::uint64_t){} }\n')
    r = subprocess.run(['g++', '-O0', '-DVRT_PRINT_FUNGIBLE'] + runner.GXX_FLAGS + [os.path.join(runner.HDIR, 'C09.cpp'), stub, '-o', exe], stderr=subprocess.PIPE)
    if r.returncode != 0:
        raise runner.Broken('cannot build the fungible-pair printer:\n' + r.stderr.decode()[-2000:])
    names = set(subprocess.run([exe], stdout=subprocess.PIPE).stdout.decode().split())
    chk.extra_evidence['fungible_ordered_pairs'] = len(names)
    chk.harness_filter = lambda h: (not h.startswith('hq_wire_')) or h in names

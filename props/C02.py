def setup(chk):
    chk.add_tu('C02.cpp')
    chk.add_tu('C02h.cpp')   # std::vector / std::basic_string destinations incl. the allocation bound
    chk.extra_evidence.update({'bounds_text': 'every core-pool destination type x enumerated input length N (quick: up to 5 lengths per type, N <= 12 / 10 / 8 / 2 for flat / scalar / table / nested-table types; thorough: every N up to 16 / 12) x readers {Pedantic, Buffer, Bounded over each}: all 256^N byte strings from an exact-size input object; heap destinations vector<u8>, vector<u16>, string, u16string (thorough: vector<S0>) at N in {0,3,4,6,7,10,11} with CBMC malloc: memory safety, no throw, peak live heap bytes <= 2N+64, release on destruction', 'outside_bounds': ['std::map / std::unordered_map', 'NOP_UNBOUNDED_BUFFER structures (excluded by the property)', 'inputs longer than the enumerated N']})
    if chk.tier == 'thorough':
        import glob, os
        here = os.path.dirname(os.path.dirname(os.path.abspath(__file__)))
        for f in sorted(glob.glob(os.path.join(here, 'h/C02t*.cpp'))):
            chk.add_tu(os.path.basename(f))

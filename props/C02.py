def setup(chk):
    chk.add_tu('C02.cpp')
    if chk.tier == 'thorough':
        chk.add_tu('C02t.cpp')

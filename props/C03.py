def setup(chk):
    chk.add_tu('C03.cpp')
    chk.add_tu('C01h.cpp')   # heap containers (std::vector / std::basic_string): round trip + reference bytes + GetSize in one harness family, shared by C01/C03/C06
    chk.extra_evidence.update({'bounds_text': 'every core-pool type, every value (all scalars fully symbolic, logical-buffer counts 0..capacity, optional/variant/result alternatives symbolic); writer = PedanticBufferWriter; oracle = independent reference encoder (h/meta.h, written from docs/format.md)',
      'outside_bounds': ['std::map / std::unordered_map (not encodable: DESIGN 1.4)', 'handles (C15)', 'heap containers only through h/C01h.cpp: element counts 0..2 round trip, 17/40/70 write side']})

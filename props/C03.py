def setup(chk):
    chk.add_tu('C03.cpp')
    chk.extra_evidence.update({'bounds_text': 'every core-pool type, every value (all scalars fully symbolic, logical-buffer counts 0..capacity, optional/variant/result alternatives symbolic); writer = PedanticBufferWriter; oracle = independent reference encoder (h/meta.h, written from docs/format.md)',
      'outside_bounds': ['std::map / std::unordered_map (not encodable: DESIGN 1.4)', 'handles (C15)', 'heap containers are in the thorough tier with counts <= 2']})

def setup(chk):
    chk.add_tu('C08.cpp')
    chk.extra_evidence.update({'bounds_text': 'framing table {1:u8, 2:u16, 3:S0, 4:deleted}, hash 0x7b: symbolic values/emptiness; entry order enumerated (6 permutations spread over kinds); one mutation per harness: none, duplicate entry, changed hash (any 64-bit value), declared size -d / +d with and without padding (d in 1..3, padding byte symbolic), reserved prefix inside an entry, extra unknown id (any 64-bit id) or deleted id with opaque payload; readers Pedantic/Buffer/Bounded/Stream(model); plus all byte strings of length N in {2,4,6,8} (thorough: up to 12) against the reference table decoder',
      'outside_bounds': ['tables with more than 4 declared entries', 'combinations of two mutations']})

def setup(chk):
    chk.add_tu('C04.cpp')
    if chk.tier == 'thorough':
        chk.add_tu('C04t.cpp')

def setup(chk):
    chk.add_tu('C04.cpp')
    chk.add_tu('C04x.cpp')   # error categories on single-defect inputs
    chk.extra_evidence.update({'bounds_text': 'every core-pool type x enumerated length N (quick N in {1,2,3,5,10}, tables up to 6; thorough every N up to 16 / 12): ALL byte strings of that length through the library decoder and the independent reference decoder: accept/reject, value, consumed; error categories: 21 single-defect harnesses (structure prefix / member count / BIN-vs-ARY / fixed array length / wider integer class / signedness / truncation; tuple, pair, array element counts; logical-buffer capacity and element-size multiple; variant index; every prefix byte for 7 scalar destinations) with symbolic values and symbolic defect parameters', 'outside_bounds': ['heap types, maps', 'byte strings longer than the enumerated N', 'defect sites other than the 21 listed']})
    if chk.tier == 'thorough':
        import glob, os
        here = os.path.dirname(os.path.dirname(os.path.abspath(__file__)))
        for f in sorted(glob.glob(os.path.join(here, 'h/C04t*.cpp'))):
            chk.add_tu(os.path.basename(f))

import glob, os
def setup(chk):
    chk.add_tu('C01.cpp')
    chk.add_tu('C01h.cpp')   # heap containers (std::vector / std::basic_string): round trip + reference bytes + GetSize in one harness family, shared by C01/C03/C06
    if chk.tier == 'thorough':
        here = os.path.dirname(os.path.dirname(os.path.abspath(__file__)))
        for f in sorted(glob.glob(os.path.join(here, 'h/gen/C01_t*.inc'))):
            chk.add_tu('C01.cpp', defs=['VRT_INC="gen/%s"' % os.path.basename(f)], tag='C01_' + os.path.basename(f)[4:-4])
    chk.extra_evidence.update({'bounds_text': 'core pool (51 types) x pairings of {Buffer, PedanticBuffer, Constexpr, Stream(model), Fd(model), Bounded<Pedantic>, Bounded<Buffer>} writers with {Buffer, PedanticBuffer, Stream(model), Fd(model), Bounded<Pedantic>, Bounded<Buffer>} readers; quick: 2 pairings per type by rotation, thorough: full cross product; all scalar values symbolic; destination pre-filled with an arbitrary value; a second value (u16) written and read back to back',
      'outside_bounds': ['std::map / std::unordered_map (not encodable: DESIGN 1.4)', 'handles (C15)', 'real std::stringstream / kernel fds (models validated natively)', 'fd reader/writer with tables, constexpr writer with floating point / bool arrays (unsupported by design)'],
      'assumes': ['fd model: read(2)/write(2) transfer one byte or fail with EINTR at most twice', 'stream model: [istream.unformatted] state bits over an in-memory sequence']})

def setup(chk):
    chk.add_tu('C12.cpp')
    chk.add_tu('C12x.cpp')   # element constructors that throw: TU lowered with exceptions, translator's exception model
    chk.extra_evidence.update({
        'bounds_text': 'Variant<Tr<0>,Tr<1>,u16>, Variant<u16,Tr<0>>, Variant<Tr<0>,Conv,u16>; 2 objects + 1 spare slot in arbitrary valid states (symbolic alternative, symbolic 32-bit payload); 13 operation kinds incl. self-assign, cross-alternative assign, Become with any int32 index, cross-variant assign, std::swap, destruction; K=1 step and K=2 (quick), K=3 (thorough) sequences',
        'outside_bounds': ['typed catch clauses (only catch (...) is modelled by the translator)', 'Variants with more than 3 alternatives', 'IfAnyOf helpers'],
        'assumes': ['invariant used for the inductive step: model state = (alternative index, payload) per Variant; live tracked elements == number of Variants holding a tracked alternative']})

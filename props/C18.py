def setup(chk):
    chk.add_tu('C18.cpp')
    chk.extra_evidence.update({
        'bounds_text': 'SipHash::Compute vs reference siphash24 for all contents of length L and all 128-bit keys; quick L in {0..9,15,16,17}; thorough L = 0..40 and {255,256,257,263,264}; name-shaped inputs of N bytes incl. NUL with the fixed library keys (quick N in {1,2,8,9}; thorough adds {6,12,16,17,24,25}; N = 31 gave no verdict in 900 s and was dropped); declared-name enumeration (6 table names, 2 interfaces, 3 methods)',
        'outside_bounds': ['L > 40 other than the five lengths around 256', 'declared names other than those listed (part 3 is an enumeration, part 1/2 are the all-inputs claims)']})

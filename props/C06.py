def setup(chk):
    chk.add_tu('C06.cpp')
    chk.add_tu('C01h.cpp')   # heap containers (std::vector / std::basic_string): round trip + reference bytes + GetSize in one harness family, shared by C01/C03/C06
    chk.extra_evidence.update({'bounds_text': 'core pool x {BufferWriter, PedanticBufferWriter, ConstexprBufferWriter, BoundedWriter over each} (quick: 2 writers per type by rotation; thorough: all), every value, every capacity 0..GetSize+1 (symbolic), canary-filled memory behind the capacity checked through a symbolic index; table entry sizes walked with the reference integer decoder',
      'outside_bounds': ['handles (GetSize over-estimates by design; C15)', 'heap containers (thorough tier of C01/C03)', 'std::map / std::unordered_map']})

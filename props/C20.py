def setup(chk):
    chk.add_tu('C20.cpp')
    chk.extra_evidence.update({
        'bounds_text': 'all 2^w values of each of 14 integral/floating types (w up to 64), loops over sizeof(T) <= 8 bytes; little-endian host only',
        'outside_bounds': ['big-endian hosts', 'long double (not supported by the library)']})

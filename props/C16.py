def setup(chk):
    chk.add_tu('C16.cpp')
    chk.extra_evidence.update({
        'bounds_text': 'limit, start index, Ensure/Skip/Prepare sizes: full 64-bit symbolic; block transfers of 0..8 elements of width 1/2/4/8; wrapped object fails or succeeds symbolically with any of the 18 error codes; K=1 step from an arbitrary (limit, index<=limit) state and sequences of K=2 (quick) / 3 and 4 (thorough) calls',
        'outside_bounds': ['sequences longer than K from the initial state are covered only through the one-step induction argument (state = (limit,index))', 'block transfers longer than 8 elements']})

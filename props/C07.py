import glob, os
def setup(chk):
    chk.add_tu('C07.cpp')
    if chk.tier == 'thorough':
        here = os.path.dirname(os.path.dirname(os.path.abspath(__file__)))
        for f in sorted(glob.glob(os.path.join(here, 'h/C07t_*.cpp'))):
            chk.add_tu(os.path.basename(f))
    chk.extra_evidence.update({'bounds_text': 'entry pool {1: u32|W32, 2: S0|S0b, 3: array<u8,3>, 4: Optional<u16>} x per id {absent, deleted, active, active with the fungible replacement} x declaration order; quick: 40 (writer version, reader version) pairs chosen as a pairwise cover of (writer state, reader state) per id + 3 nested placements (structure, entry of another table); thorough: 300 further pairs + array placement; all entry values and emptiness symbolic; sentinel u32 behind the table',
      'outside_bounds': ['pools with more than 4 ids', 'fungible replacements that are not always-compatible (array <-> shorter logical buffer: C09)'],
      'assumes': ['histories are covered through the (writer version, reader version) pair: the property depends only on the two definitions, ids are never reused by construction of the pool']})

def setup(chk):
    chk.add_tu('C11.cpp')
    chk.add_tu('C11h.cpp')   # std::string / std::vector destinations holding stale elements
    chk.add_tu('C11x.cpp')
    if chk.tier == 'thorough':
        import glob, os
        here = os.path.dirname(os.path.dirname(os.path.abspath(__file__)))
        for f in sorted(glob.glob(os.path.join(here, 'h/C11t*.cpp'))):
            chk.add_tu(os.path.basename(f))
    chk.extra_evidence.update({'bounds_text': 'every core-pool type: destination = arbitrary drawn value, then a read of M arbitrary bytes (which may succeed or fail at any point), then N arbitrary bytes read into it and into a fresh object: same status, same error, same value, same consumed length (quick: N up to 12 / 4 for tables, M = 3 / 2; thorough: more (N,M) combinations); lifetime part: Optional/Variant/Result/array/logical buffer/table over a serializable lifetime-tracking structure: two successive reads of arbitrary bytes, then destruction: live count 0, no double destroy',
      'outside_bounds': ['std::vector / std::string / maps (heap; stale elements are covered only through tables, logical buffers and arrays)', 'prior states produced by more than one earlier read']})

def setup(chk):
    chk.add_tu('C11.cpp')
    if chk.tier == 'thorough':
        chk.add_tu('C11t.cpp')

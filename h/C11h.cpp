// C11 (heap containers): containers do not keep stale elements.  A std::string / std::vector holding P elements
// (P enumerated) and a fresh one both decode the reference encoding of a value with Q elements (Q enumerated,
// contents symbolic): both succeed, both equal the value.  Lowering with inlining, operator new from the arena.
//@tu inline=1 unwind=10 memunwind=40 arena=512 mem=20 loop:Meta.*vector=4 loop:Meta.*basic_string=4
#include "rd.h"
#include <string>
#include <vector>
#include <nop/base/string.h>
#include <nop/base/vector.h>
template class std::basic_string<char>;
template <typename T, int P, int Q>
static void stale_harness() {
  MetaCfg::heap_count = Q; T v; Meta<T>::draw(&v);
  MetaCfg::heap_count = P; T d1; Meta<T>::draw(&d1);
  T d0;
  static std::uint8_t enc[16]; Out o(enc, sizeof enc); Meta<T>::enc(v, o); vassume(o.fits());
  Rd<PBR> r1(enc, o.n); auto s1 = r1.read(&d1);
  Rd<PBR> r0(enc, o.n); auto s0 = r0.read(&d0);
  vassert(!!s1 && !!s0, 1);
  vassert(Meta<T>::eq(d1, v) && Meta<T>::eq(d0, v) && d1.size() == (std::size_t)Q, 2);   // no stale elements
  vassert(r1.consumed() == r0.consumed(), 3);
  vrt_end();
}
using STR = std::string; using VU16 = std::vector<u16>; using VU8 = std::vector<u8>;
#define ST(tier, name, T, P, Q) extern "C" void tier##_stale_##name##_p##P##_q##Q(void) { stale_harness<T, P, Q>(); }
ST(hq, str, STR, 2, 0) ST(hq, str, STR, 2, 1) ST(hq, str, STR, 0, 2) ST(hq, vu16, VU16, 2, 0) ST(hq, vu16, VU16, 2, 1) ST(hq, vu8, VU8, 1, 2)
ST(ht, str, STR, 3, 1) ST(ht, vu16, VU16, 3, 2) ST(ht, vu8, VU8, 3, 0)

// C02 (heap destinations): N arbitrary bytes decoded into std::vector / std::basic_string destinations.
// operator new = CBMC malloc (exact object bounds), lowering with inlining (the libstdc++ growth code is only
// tractable inlined).  Checks: memory safety of every access, no abort/throw (length_error, bad_alloc), peak live
// heap bytes <= 2*N + 64 (a type-dependent constant multiple of the input length), destination destructible and
// readable again afterwards.
//@tu inline=1 unwind=10 memunwind=60 mem=20 timeout=600
//@h _n(8|10|11|12) : unwind=14
#include "rd.h"
#include <string>
#include <vector>
#include <nop/base/string.h>
#include <nop/base/vector.h>
template class std::basic_string<char>;
template class std::basic_string<char16_t>;

template <typename T, typename R, int N>
static void hostile_heap() {
  std::uint8_t raw[N ? N : 1]; for (int i = 0; i < N; i++) raw[i] = nd8();
  const std::uint8_t* buf = N ? raw : raw + 1;
  const std::uint64_t base = vrt_alloc_live_bytes();
  {
    T o;
    { Rd<R> r(buf, N); auto st = r.read(&o); vassert(r.consumed() <= (std::size_t)N, 1); vrt_observe(!!st ? 1 : 0); }
    vassert(vrt_alloc_peak_bytes() - base <= 2 * (std::uint64_t)N + 64, 2);     // never allocates more than a constant multiple of the input length
    // the destination is valid to read into again: an empty container encoding (BIN/STR/ARY with length 0)
    const std::uint8_t empty_bin[2] = {0xbc, 0x00}, empty_str[2] = {0xbd, 0x00}, empty_ary[2] = {0xba, 0x00};
    Rd<PBR> r1(empty_bin, 2), r2(empty_str, 2), r3(empty_ary, 2);
    auto s1 = r1.read(&o); auto s2 = r2.read(&o); auto s3 = r3.read(&o);
    vassert((!!s1 || !!s2 || !!s3) && o.size() == 0, 3);
  }
  vassert(vrt_alloc_live_bytes() == base, 4);                                  // everything released on destruction
  vrt_end();
}
using VU8 = std::vector<u8>; using VU16 = std::vector<u16>; using VS0 = std::vector<S0>; using STR = std::string; using STR16 = std::u16string;
using BndPBR = BndR<PBR>;
#define HH(tier, name, T, R, N) extern "C" void tier##_hostile_heap_##name##__##R##_n##N(void) { hostile_heap<T, R, N>(); }
HH(hq, vu8, VU8, PBR, 0) HH(hq, vu8, VU8, BR, 3) HH(hq, vu8, VU8, PBR, 10) HH(hq, vu8, VU8, BndPBR, 6)
HH(hq, vu16, VU16, PBR, 4) HH(hq, vu16, VU16, BR, 11) HH(hq, str, STR, PBR, 3) HH(hq, str, STR, BR, 10) HH(hq, str16, STR16, PBR, 7) HH(hq, str16, STR16, BndPBR, 11)
HH(ht, vu8, VU8, PBR, 12) HH(ht, vu16, VU16, PBR, 12) HH(ht, str, STR, PBR, 12) HH(ht, str16, STR16, PBR, 12)
// std::vector<S0> (VS0, heap vector of user structures): cbmc leaves 300+ properties UNKNOWN at n = 4 and n = 8 (no verdict in 340 s): outside the encodable bound, not claimed.

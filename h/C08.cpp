// C08: table framing is validated: hash, duplicate ids, entry sizes, padding, any order; an error inside an
// entry fails the whole read.
// Harness B (targeted): a symbolic valid table value is laid out by a hand-written schema encoder (entry order
// ORD enumerated, one mutation KIND enumerated, mutation parameters symbolic) and read by the library.
// Harness A (all byte strings vs. reference decoder incl. duplicate detection, per-entry frame, skipping of
// unknown/deleted ids) is C04's lang_harness on the table types; it is instantiated here for the framing table.
//@tu unwind=12 memunwind=70 loop:ReadEntries=6 loop:nested_pad_harness=30 timeout=600
//@h _n(\d+)$ : loop:ReadEntries=7
//@h nested_pad : loop:ReadEntries=3
#include "rd.h"

// payloads with fixed-length encodings (bool: 1 byte, float: 5, pair<bool,float>: 8): framing, not payload classes, is the subject here
using PBF = std::pair<bool, float>;
struct TF { nop::Entry<bool, 1> a; nop::Entry<float, 2> b; nop::Entry<PBF, 3> c; nop::Entry<u8, 4, nop::DeletedEntry> d; NOP_TABLE_HASH(0x7b, TF, a, b, c, d); };
template <> struct Meta<TF> : MetaTable<TF, 0x7b, E<TF, bool, 1, nop::Entry<bool, 1>, &TF::a>, E<TF, float, 2, nop::Entry<float, 2>, &TF::b>, E<TF, PBF, 3, nop::Entry<PBF, 3>, &TF::c>, DEL<TF, 4>> {};

enum Kind { kNone, kDuplicate, kHash, kShrink, kGrowPadded, kGrowUnpadded, kCorrupt, kUnknownId, kDeletedId };

struct Ent { std::uint64_t id; std::uint8_t val[12]; std::size_t n; bool present; };

static void put_entry(Out& o, const Ent& e, std::uint64_t declared, std::size_t pad, std::uint8_t padv) {
  ref_enc_uint(o, e.id); ref_enc_uint(o, declared);
  for (std::size_t i = 0; i < e.n; i++) o.put(e.val[i]);
  for (std::size_t i = 0; i < pad; i++) o.put(padv);
}

template <int ORD, int KIND, typename R>
static void framing_harness() {
  TF v; Meta<TF>::draw(&v);
  const std::uint8_t which = nd8(), dd = nd8(), padv = nd8(), cb = nd8();
  const std::uint64_t badhash = nd64(), unk = nd64();
  vassume(badhash != 0x7b);
  vassume(unk != 1 && unk != 2 && unk != 3 && unk != 4);
  Ent e[3];
  e[0].id = 1; e[0].present = !v.a.empty(); { Out t(e[0].val, 12); if (e[0].present) Meta<bool>::enc(v.a.get(), t); e[0].n = t.n; }
  e[1].id = 2; e[1].present = !v.b.empty(); { Out t(e[1].val, 12); if (e[1].present) Meta<float>::enc(v.b.get(), t); e[1].n = t.n; }
  e[2].id = 3; e[2].present = !v.c.empty(); { Out t(e[2].val, 12); if (e[2].present) Meta<PBF>::enc(v.c.get(), t); e[2].n = t.n; }
  static const int perm[6][3] = {{0, 1, 2}, {0, 2, 1}, {1, 0, 2}, {1, 2, 0}, {2, 0, 1}, {2, 1, 0}};
  const int target = which % 3;                       // the entry the mutation applies to
  const std::size_t d = 1 + dd % 3;                   // 1..3 bytes
  if (KIND != kNone && KIND != kHash && KIND != kUnknownId && KIND != kDeletedId) vassume(e[target].present);

  std::uint8_t buf[64] = {}; Out o(buf, sizeof buf);
  o.put(0xb5); ref_enc_uint(o, KIND == kHash ? badhash : 0x7b);
  std::uint64_t cnt = (e[0].present ? 1 : 0) + (e[1].present ? 1 : 0) + (e[2].present ? 1 : 0);
  if (KIND == kDuplicate || KIND == kUnknownId || KIND == kDeletedId) cnt += 1;
  ref_enc_uint(o, cnt);
  if (KIND == kUnknownId || KIND == kDeletedId) {     // an entry the reader does not know / has marked deleted, with an opaque payload of d bytes
    ref_enc_uint(o, KIND == kUnknownId ? unk : 4); ref_enc_uint(o, d); for (std::size_t i = 0; i < d; i++) o.put(padv);
  }
  for (int k = 0; k < 3; k++) {
    const Ent& x = e[perm[ORD][k]];
    if (!x.present) continue;
    const bool hit = perm[ORD][k] == target;
    if (hit && KIND == kShrink) { vassume(d <= x.n); put_entry(o, x, x.n - d, 0, 0); }
    else if (hit && KIND == kGrowPadded) put_entry(o, x, x.n + d, d, padv);
    else if (hit && KIND == kGrowUnpadded) put_entry(o, x, x.n + d, 0, 0);
    else if (hit && KIND == kCorrupt) { Ent y = x; y.val[0] = 0x8a + cb % 0x2b; put_entry(o, y, y.n, 0, 0); }   // reserved prefix 0x8a..0xb4 as first value byte
    else put_entry(o, x, x.n, 0, 0);
    if (hit && KIND == kDuplicate) put_entry(o, x, x.n, 0, 0);
  }
  const std::size_t n = o.n;
  vassume(o.fits());
  const u32 sent_v = nd32();
  if (KIND == kGrowUnpadded) {
    // the grown entry must be the last one on the wire, so that its declared frame extends past the end of the input
    int last = -1; for (int k = 0; k < 3; k++) if (e[perm[ORD][k]].present) last = perm[ORD][k];
    vassume(last == target);
  } else {
    Meta<u32>::enc(sent_v, o);                         // further data behind the table
  }
  vassume(o.fits());

  TF r; Meta<TF>::draw(&r);
  Rd<R> rd(buf, o.n);
  auto st = rd.read(&r);
  switch (KIND) {
    case kNone: case kGrowPadded: case kUnknownId: case kDeletedId:
      vassert(!!st, 1);
      if (st) { vassert(Meta<TF>::eq(r, v), 2); vassert(rd.consumed() == n, 3); }   // any order accepted; exactly the surplus skipped
      break;
    case kDuplicate: vassert(!st && st.error() == nop::ErrorStatus::DuplicateTableEntry, 4); break;
    case kHash: vassert(!st && st.error() == nop::ErrorStatus::InvalidTableHash, 5); break;
    case kShrink: vassert(!st, 6); break;
    case kGrowUnpadded: vassert(!st, 7); break;       // declared frame extends past the end of the input (cut inside padding)
    case kCorrupt: vassert(!st && st.error() == nop::ErrorStatus::UnexpectedEncodingType, 8); break;   // inner error fails the whole read, unmasked
  }
  vrt_end();
}

#define FH(tier, ORD, KIND, R) extern "C" void tier##_frame_o##ORD##_##KIND##__##R(void) { framing_harness<ORD, KIND, R>(); }
using BndPBR = BndR<PBR>;
FH(hq, 0, kNone, PBR) FH(hq, 3, kNone, PBR) FH(hq, 5, kNone, BndPBR) FH(ht, 1, kNone, PBR) FH(ht, 2, kNone, SR) FH(ht, 4, kNone, PBR)
FH(hq, 0, kDuplicate, PBR) FH(hq, 4, kDuplicate, BR) FH(ht, 2, kDuplicate, SR)
FH(hq, 1, kHash, PBR) FH(ht, 0, kHash, SR)
FH(hq, 0, kShrink, PBR) FH(hq, 5, kShrink, BR) FH(ht, 2, kShrink, BndPBR) FH(ht, 3, kShrink, SR)
FH(hq, 0, kGrowPadded, PBR) FH(hq, 2, kGrowPadded, BR) FH(ht, 4, kGrowPadded, SR) FH(ht, 5, kGrowPadded, BndPBR)
FH(hq, 1, kGrowUnpadded, PBR) FH(ht, 3, kGrowUnpadded, BR)
FH(hq, 0, kCorrupt, PBR) FH(hq, 3, kCorrupt, BndPBR) FH(ht, 5, kCorrupt, SR)
FH(hq, 0, kUnknownId, PBR) FH(ht, 2, kUnknownId, SR) FH(ht, 4, kUnknownId, BR)
FH(hq, 1, kDeletedId, PBR) FH(ht, 3, kDeletedId, SR)

// Harness A: all byte strings of length N vs. the reference table decoder
#define LH(tier, N) extern "C" void tier##_frame_lang_TF_n##N(void) { lang_harness<TF, N>(); }
LH(hq, 2) LH(hq, 4) LH(hq, 6) LH(ht, 8) LH(ht, 3) LH(ht, 5) LH(ht, 7) LH(ht, 10) LH(ht, 12)

// Padding INSIDE a nested table: an inner entry declared larger than its value (PAD bytes of padding) inside the byte
// frame of an outer entry; exactly the surplus is skipped at both levels: the outer table's next entry and the data
// behind the table are found where they are.
struct IW8 { nop::Entry<bool, 1> a; nop::Entry<float, 2> b; NOP_TABLE_HASH(0x61, IW8, a, b); };
struct OW8 { nop::Entry<IW8, 1> in; nop::Entry<bool, 2> x; NOP_TABLE_HASH(0x62, OW8, in, x); };
template <int PAD, typename R>
static void nested_pad_harness() {
  const bool va = ndbool(), vx = ndbool(); float vb; Meta<float>::draw(&vb); const std::uint8_t padv = nd8(); const u32 sent = nd32();
  // inner table bytes
  std::uint8_t ib[24] = {}; Out i(ib, sizeof ib);
  i.put(0xb5); ref_enc_uint(i, 0x61); ref_enc_uint(i, 2);
  ref_enc_uint(i, 1); ref_enc_uint(i, 1 + PAD); Meta<bool>::enc(va, i); for (int k = 0; k < PAD; k++) i.put(padv);
  ref_enc_uint(i, 2); ref_enc_uint(i, 5 + PAD); Meta<float>::enc(vb, i); for (int k = 0; k < PAD; k++) i.put(padv);
  std::uint8_t buf[48] = {}; Out o(buf, sizeof buf);
  o.put(0xb5); ref_enc_uint(o, 0x62); ref_enc_uint(o, 2);
  ref_enc_uint(o, 1); ref_enc_uint(o, i.n + PAD); for (std::size_t k = 0; k < i.n; k++) o.put(ib[k]); for (int k = 0; k < PAD; k++) o.put(padv);
  ref_enc_uint(o, 2); ref_enc_uint(o, 1); Meta<bool>::enc(vx, o);
  const std::size_t n = o.n;
  Meta<u32>::enc(sent, o);
  vassume(i.fits() && o.fits());
  OW8 r; Rd<R> rd(buf, o.n);
  auto st = rd.read(&r);
  vassert(!!st, 1);
  vassert(rd.consumed() == n, 2);
  vassert(!r.x.empty() && r.x.get() == vx && !r.in.empty() && !r.in.get().a.empty() && r.in.get().a.get() == va && !r.in.get().b.empty() && Meta<float>::eq(r.in.get().b.get(), vb), 3);
  u32 s2 = 0; auto st2 = rd.read(&s2); vassert(!!st2 && s2 == sent, 4);
  vrt_end();
}
extern "C" void hq_frame_nested_pad0__PBR(void) { nested_pad_harness<0, PBR>(); }
extern "C" void hq_frame_nested_pad2__PBR(void) { nested_pad_harness<2, PBR>(); }
extern "C" void ht_frame_nested_pad3__SR(void) { nested_pad_harness<3, SR>(); }
extern "C" void ht_frame_nested_pad1__BR(void) { nested_pad_harness<1, BR>(); }

// C06: GetSize never under-estimates; buffer writes never exceed capacity (symbolic capacity 0..GetSize+1,
// canary bytes behind the buffer end checked through one symbolic index).
//@tu unwind=10 memunwind=60 loop:LogicalBuffer=6 loop:StreamWriter.*Skip=3
#include "ser.h"
#include "gen/C06.inc"

// inside a table the declared size of each entry equals the bytes that follow it (value plus padding):
// walk the produced bytes with the reference integer decoder.
template <typename T>
static void entry_size_harness() {
  T v; Meta<T>::draw(&v);
  std::uint8_t buf[Cap<T>::value] = {};
  Wr<PBW> w(buf, sizeof buf);
  auto st = w.write(v);
  vassert(!!st, 1);
  const std::size_t n = w.produced();
  In in(buf, n);
  std::uint8_t c; std::uint64_t hash, cnt;
  vassert(in.get(&c) && c == 0xb5 && ref_dec_uint(in, 8, &hash) && ref_dec_uint(in, 8, &cnt), 2);
  vassert(cnt <= 3, 3);
  for (std::uint64_t i = 0; i < cnt && i < 3; i++) {
    std::uint64_t id, size;
    vassert(ref_dec_uint(in, 8, &id) && ref_dec_uint(in, 8, &size), 4);
    vassert(size <= in.left(), 5);         // the declared size lies within the produced bytes
    in.pos += (std::size_t)size;           // ... and the next entry (or the end) starts right after it
  }
  vassert(in.pos == n, 6);
  vrt_end();
}
extern "C" void hq_entry_size_T1(void) { entry_size_harness<T1>(); }
extern "C" void hq_entry_size_T2(void) { entry_size_harness<T2>(); }
extern "C" void ht_entry_size_T3(void) { entry_size_harness<T3>(); }

#define CI(tier, name, T, Inner) extern "C" void tier##_cap_inner_##name##__##Inner(void) { cap_inner_harness<T, Inner>(); }
CI(hq, S0, S0, BW) CI(hq, S1, S1, BW) CI(hq, T1, T1, BW) CI(hq, u64, u64, CBW) CI(hq, a_u16_2, P_a_u16_2, PBW) CI(ht, S2, S2, BW) CI(ht, LB2, LB2, BW) CI(ht, T2, T2, CBW)

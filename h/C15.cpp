// C15: handles travel out of band intact; UniqueHandle closes exactly once.
//@tu unwind=12 memunwind=110 loop:ReadEntries=4 loop:HandleWriter::Skip=40
#include "io.h"
#include "pool.h"
#include <new>
#include <nop/base/handle.h>
#include <nop/serializer.h>
#include <nop/types/handle.h>

using IntHandle = nop::Handle<nop::DefaultHandlePolicy<int, -1>>;
struct Policy5 : nop::DefaultHandlePolicy<int, -1> { static constexpr std::uint64_t HandleType() { return 5; } };
using Handle5 = nop::Handle<Policy5>;

// ---- writer / reader implementing the documented handle contract, logging the out-of-band traffic
struct HLog {
  int pushes = 0; int push_vals[6] = {}; nop::HandleReference push_refs[6] = {};
  int gets = 0; nop::HandleReference get_refs[6] = {};
  nop::HandleReference next_refs[6] = {};          // references the writer's channel will hand out (symbolic)
  int fail_get_at = -1; nop::ErrorStatus get_err = nop::ErrorStatus::InvalidHandleReference;
};
struct HandleWriter {
  HLog* log; std::uint8_t* buf; std::size_t cap; std::size_t n = 0;
  nop::Status<void> Prepare(std::size_t s) { return s > cap - n ? nop::Status<void>{nop::ErrorStatus::WriteLimitReached} : nop::Status<void>{}; }
  nop::Status<void> Write(std::uint8_t b) { if (n >= cap) return nop::ErrorStatus::WriteLimitReached; buf[n++] = b; return {}; }
  template <typename T, typename Enable = nop::EnableIfArithmetic<T>>
  nop::Status<void> Write(const T* b, const T* e) {
    const std::uint8_t* p = reinterpret_cast<const std::uint8_t*>(b); const std::size_t len = (e - b) * sizeof(T);
    if (len > cap - n) return nop::ErrorStatus::WriteLimitReached;
    for (std::size_t i = 0; i < len; i++) buf[n++] = p[i];
    return {};
  }
  nop::Status<void> Skip(std::size_t s, std::uint8_t v = 0) { if (s > cap - n) return nop::ErrorStatus::WriteLimitReached; for (std::size_t i = 0; i < s; i++) buf[n++] = v; return {}; }
  template <typename HandleType>
  nop::Status<nop::HandleReference> PushHandle(const HandleType& h) {
    const int k = log->pushes++;
    if (k < 6) { log->push_vals[k] = h.get(); log->push_refs[k] = h ? log->next_refs[k] : nop::kEmptyHandleReference; return log->push_refs[k]; }
    return nop::ErrorStatus::InvalidHandleValue;
  }
};
struct HandleReader {
  HLog* log; const std::uint8_t* buf; std::size_t len; std::size_t pos = 0;
  nop::Status<void> Ensure(std::size_t s) { return s > len - pos ? nop::Status<void>{nop::ErrorStatus::ReadLimitReached} : nop::Status<void>{}; }
  nop::Status<void> Read(std::uint8_t* b) { if (pos >= len) return nop::ErrorStatus::ReadLimitReached; *b = buf[pos++]; return {}; }
  template <typename T, typename Enable = nop::EnableIfArithmetic<T>>
  nop::Status<void> Read(T* b, T* e) {
    std::uint8_t* p = reinterpret_cast<std::uint8_t*>(b); const std::size_t l = (e - b) * sizeof(T);
    if (l > len - pos) return nop::ErrorStatus::ReadLimitReached;
    for (std::size_t i = 0; i < l; i++) p[i] = buf[pos++];
    return {};
  }
  nop::Status<void> Skip(std::size_t s) { if (s > len - pos) return nop::ErrorStatus::ReadLimitReached; pos += s; return {}; }
  template <typename HandleType>
  nop::Status<HandleType> GetHandle(nop::HandleReference ref) {
    const int k = log->gets++;
    if (k < 6) log->get_refs[k] = ref;
    if (k == log->fail_get_at) return log->get_err;
    return HandleType{ref == nop::kEmptyHandleReference ? -1 : (int)(ref & 0x3fffffff)};   // the resource a reference denotes
  }
};

struct V1 { u8 a; IntHandle h; nop::Optional<IntHandle> oh; NOP_STRUCTURE(V1, a, h, oh); };
struct V2 { std::array<IntHandle, 2> hs; nop::Variant<u8, IntHandle> vh; NOP_STRUCTURE(V2, hs, vh); };
struct TH { nop::Entry<IntHandle, 1> h; nop::Entry<V1, 2> v; nop::Entry<u8, 3> x; NOP_TABLE_HASH(3, TH, h, v, x); };

static int draw_res() { return (int)(nd8() % 4) - 1; }                         // -1 = empty handle, else resource 0..2
static void draw_refs(HLog* l) { for (int i = 0; i < 6; i++) { l->next_refs[i] = (nop::HandleReference)nd64(); vassume(l->next_refs[i] >= 0); } }
// reference decode of one handle at `in`: HND, TYPE (unsigned), REF (int64 class)
static bool ref_handle(In& in, std::uint64_t* type, std::int64_t* ref) { std::uint8_t c; return in.get(&c) && c == 0xb7 && ref_dec_uint(in, 8, type) && ref_dec_int(in, 8, ref); }
static int res_of(nop::HandleReference r) { return r == nop::kEmptyHandleReference ? -1 : (int)(r & 0x3fffffff); }

static void v1_harness() {
  V1 v; v.a = nd8(); const int r0 = draw_res(), r1 = draw_res(); const bool has = ndbool();
  v.h = IntHandle{r0}; if (has) v.oh = IntHandle{r1}; else v.oh.clear();
  HLog lg; draw_refs(&lg);
  std::uint8_t buf[48] = {}; HandleWriter w{&lg, buf, sizeof buf};
  nop::Serializer<HandleWriter*> s{&w};
  auto st = s.Write(v);
  vassert(!!st, 1);
  vassert(lg.pushes == (has ? 2 : 1), 2);                                   // each contained handle handed over exactly once
  vassert(lg.push_vals[0] == r0 && (!has || lg.push_vals[1] == r1), 3);     // in encounter order
  vassert(s.GetSize(v) >= w.n, 4);                                          // GetSize never under-estimates (handles over-estimate)
  // the encoded reference is exactly the one the writer returned, after the type tag
  In in(buf, w.n); std::uint8_t c; std::uint64_t cnt, ty; std::int64_t ref; u8 a0;
  vassert(in.get(&c) && c == 0xb9 && ref_dec_uint(in, 8, &cnt) && cnt == 3 && Meta<u8>::dec(in, &a0), 5);
  vassert(ref_handle(in, &ty, &ref) && ty == 0 && ref == lg.push_refs[0], 6);
  if (has) vassert(ref_handle(in, &ty, &ref) && ty == 0 && ref == lg.push_refs[1], 7);
  // read back: references resolved through the reader, in order; handles denote the same resources
  HLog rl; HandleReader r{&rl, buf, w.n};
  nop::Deserializer<HandleReader*> d{&r};
  V1 o; auto rs = d.Read(&o);
  vassert(!!rs, 8);
  vassert(rl.gets == lg.pushes && rl.get_refs[0] == lg.push_refs[0] && (!has || rl.get_refs[1] == lg.push_refs[1]), 9);
  vassert(o.a == v.a && o.h.get() == res_of(lg.push_refs[0]) && o.oh.empty() == !has && (!has || o.oh.get().get() == res_of(lg.push_refs[1])), 10);
  vassert(static_cast<bool>(o.h) == (r0 != -1) || lg.push_refs[0] != nop::kEmptyHandleReference, 11);
  vrt_end();
}

static void v2_harness() {
  V2 v; const int r0 = draw_res(), r1 = draw_res(), r2 = draw_res(); const std::uint8_t alt = nd8() % 3; const u8 x = nd8();
  v.hs[0] = IntHandle{r0}; v.hs[1] = IntHandle{r1};
  if (alt == 1) v.vh = x; else if (alt == 2) v.vh = IntHandle{r2};
  HLog lg; draw_refs(&lg);
  std::uint8_t buf[64] = {}; HandleWriter w{&lg, buf, sizeof buf};
  nop::Serializer<HandleWriter*> s{&w};
  auto st = s.Write(v);
  vassert(!!st, 1);
  vassert(lg.pushes == (alt == 2 ? 3 : 2) && lg.push_vals[0] == r0 && lg.push_vals[1] == r1 && (alt != 2 || lg.push_vals[2] == r2), 2);
  HLog rl; HandleReader r{&rl, buf, w.n};
  nop::Deserializer<HandleReader*> d{&r};
  V2 o; auto rs = d.Read(&o);
  vassert(!!rs && rl.gets == lg.pushes, 3);
  for (int i = 0; i < 3; i++) if (i < lg.pushes) vassert(rl.get_refs[i] == lg.push_refs[i], 4);
  vassert(o.hs[0].get() == res_of(lg.push_refs[0]) && o.hs[1].get() == res_of(lg.push_refs[1]), 5);
  vassert(o.vh.index() == v.vh.index(), 6);
  if (alt == 2) vassert(o.vh.get<IntHandle>()->get() == res_of(lg.push_refs[2]), 7);
  vrt_end();
}

// handles inside table entries (the entry is written through the library's BoundedWriter / BoundedReader)
static void table_harness() {
  TH v; const int r0 = draw_res(), r1 = draw_res(), r2 = draw_res(); const bool e0 = ndbool(), e1 = ndbool(), oh = ndbool();
  if (e0) v.h = IntHandle{r0};
  if (e1) { V1 x; x.a = nd8(); x.h = IntHandle{r1}; if (oh) x.oh = IntHandle{r2}; v.v = x; }
  v.x = nd8();
  HLog lg; draw_refs(&lg);
  for (int i = 0; i < 3; i++) vassume(lg.next_refs[i] < 64);   // one-byte reference encodings here (arbitrary 63-bit references: struct/array harnesses); keeps entry positions concrete
  std::uint8_t buf[96] = {}; HandleWriter w{&lg, buf, sizeof buf};
  nop::Serializer<HandleWriter*> s{&w};
  auto st = s.Write(v);
  vassert(!!st, 1);
  const int expect = (e0 ? 1 : 0) + (e1 ? (oh ? 2 : 1) : 0);
  vassert(lg.pushes == expect, 2);
  vassert(s.GetSize(v) >= w.n, 3);
  HLog rl; HandleReader r{&rl, buf, w.n};
  nop::Deserializer<HandleReader*> d{&r};
  TH o; auto rs = d.Read(&o);
  vassert(!!rs && rl.gets == expect && r.pos == w.n, 4);
  for (int i = 0; i < 3; i++) if (i < expect) vassert(rl.get_refs[i] == lg.push_refs[i], 5);
  vassert(o.h.empty() == !e0 && o.v.empty() == !e1 && !o.x.empty() && o.x.get() == v.x.get(), 6);
  if (e0) vassert(o.h.get().get() == res_of(lg.push_refs[0]), 7);
  if (e1) vassert(o.v.get().h.get() == res_of(lg.push_refs[e0 ? 1 : 0]), 8);
  vrt_end();
}

// corrupted type tag => UnexpectedHandleType ; resolver error returned unchanged
static void corrupt_harness() {
  const int r0 = draw_res(); const std::uint8_t badtype = nd8(); const std::uint8_t ek = nd8(); const bool five = ndbool();
  HLog lg; draw_refs(&lg);
  std::uint8_t buf[24] = {}; HandleWriter w{&lg, buf, sizeof buf};
  nop::Serializer<HandleWriter*> s{&w};
  if (five) { auto st = s.Write(Handle5{r0}); vassert(!!st, 1); } else { auto st = s.Write(IntHandle{r0}); vassert(!!st, 1); }
  vassert(buf[0] == 0xb7 && buf[1] == (five ? 5 : 0), 2);                    // HND, then the policy's type tag
  const nop::ErrorStatus e = static_cast<nop::ErrorStatus>(ek % 18 + 1);
  {  // resolution error is returned unchanged
    HLog rl; rl.fail_get_at = 0; rl.get_err = e; HandleReader r{&rl, buf, w.n};
    nop::Deserializer<HandleReader*> d{&r};
    nop::Status<void> rs; if (five) { Handle5 o; rs = d.Read(&o); } else { IntHandle o; rs = d.Read(&o); }
    vassert(!rs && rs.error() == e && rl.gets == 1 && rl.get_refs[0] == lg.push_refs[0], 3);
  }
  {  // mismatched type tag
    vassume(badtype < 0x80 && badtype != (five ? 5 : 0));
    buf[1] = badtype;
    HLog rl; HandleReader r{&rl, buf, w.n};
    nop::Deserializer<HandleReader*> d{&r};
    nop::Status<void> rs; if (five) { Handle5 o; rs = d.Read(&o); } else { IntHandle o; rs = d.Read(&o); }
    vassert(!rs && rs.error() == nop::ErrorStatus::UnexpectedHandleType && rl.gets == 0, 4);
  }
  vrt_end();
}

// ---- UniqueHandle: closes exactly once
struct CloseLog { static int closes[3]; static int released[3]; static void reset() { for (int i = 0; i < 3; i++) closes[i] = released[i] = 0; } };
int CloseLog::closes[3]; int CloseLog::released[3];
struct CountPolicy {
  using Type = int;
  static constexpr int Default() { return -1; }
  static bool IsValid(const int& v) { return v >= 0; }
  static void Close(int* v) { if (*v >= 0 && *v < 3) CloseLog::closes[*v]++; *v = -1; }
  static int Release(int* v) { const int t = *v; *v = -1; return t; }
  static constexpr std::uint64_t HandleType() { return 0; }
};
using UH = nop::UniqueHandle<CountPolicy>;
template <typename VT> struct Slot {
  alignas(VT) unsigned char mem[sizeof(VT)]; bool live = false;
  VT* p() { return reinterpret_cast<VT*>(mem); }
  void destroy() { if (live) { p()->~VT(); live = false; } }
};
template <int K>
static void unique_harness() {
  const std::uint8_t own0 = nd8(), own1 = nd8();
  std::uint8_t op[K], si[K], sj[K]; for (int n = 0; n < K; n++) { op[n] = nd8(); si[n] = nd8(); sj[n] = nd8(); }
  CloseLog::reset();
  Slot<UH> sl[3]; int owner[3] = {-1, -1, -1};                     // model: which resource id each slot owns (-1 none); ids distinct
  // arbitrary valid start: slot 0 owns id 0 or nothing, slot 1 owns id 1 or nothing
  if (own0 & 1) { new (sl[0].mem) UH(0); owner[0] = 0; } else new (sl[0].mem) UH();
  if (own1 & 1) { new (sl[1].mem) UH(1); owner[1] = 1; } else new (sl[1].mem) UH();
  sl[0].live = sl[1].live = true;
  bool created[3] = {(own0 & 1) != 0, (own1 & 1) != 0, false};
  for (int n = 0; n < K; n++) {
    const int i = si[n] & 1, j = sj[n] & 1;
    if (!sl[i].live || !sl[j].live) continue;
    switch (op[n] % 7) {
      case 0: if (!sl[2].live) { new (sl[2].mem) UH(std::move(*sl[i].p())); sl[2].live = true; owner[2] = owner[i]; owner[i] = -1; } break;   // move-construct
      case 1: { *sl[j].p() = std::move(*sl[i].p());                                                                                        // move-assign (incl. self)
                if (i != j) { if (owner[j] >= 0) vassert(CloseLog::closes[owner[j]] == 1, 20); owner[j] = owner[i]; owner[i] = -1; } break; }
      case 2: { const int got = sl[j].p()->release(); vassert(got == owner[j] || (owner[j] < 0 && got == -1), 21);
                if (owner[j] >= 0) CloseLog::released[owner[j]] = 1; owner[j] = -1; break; }
      case 3: sl[j].p()->close(); if (owner[j] >= 0) vassert(CloseLog::closes[owner[j]] == 1, 22); owner[j] = -1; break;
      case 4: sl[j].destroy(); if (owner[j] >= 0) vassert(CloseLog::closes[owner[j]] == 1, 23); owner[j] = -1; break;
      case 5: { if (!sl[2].live && !created[2]) { new (sl[2].mem) UH(2); sl[2].live = true; owner[2] = 2; created[2] = true; } break; }            // a third resource appears
      default: vassert(static_cast<bool>(*sl[j].p()) == (owner[j] >= 0) && sl[j].p()->get() == owner[j], 24); break;
    }
    for (int s = 0; s < 3; s++) if (sl[s].live) vassert(sl[s].p()->get() == owner[s], 2);
    for (int id = 0; id < 3; id++) {
      vassert(CloseLog::closes[id] <= 1, 3);                                                    // never closed twice
      const bool owned = owner[0] == id || owner[1] == id || owner[2] == id;
      if (owned || CloseLog::released[id]) vassert(CloseLog::closes[id] == 0, 4);               // never closes a resource that is still owned, was released or moved away
    }
  }
  for (int s = 0; s < 3; s++) sl[s].destroy();
  for (int id = 0; id < 3; id++) {
    if (created[id] && !CloseLog::released[id]) vassert(CloseLog::closes[id] == 1, 5);          // exactly once by the end of its owner's life
    else vassert(CloseLog::closes[id] == 0, 6);
  }
  vrt_end();
}

extern "C" void hq_handles_struct(void) { v1_harness(); }
extern "C" void hq_handles_array_variant(void) { v2_harness(); }
extern "C" void hq_handles_table(void) { table_harness(); }
extern "C" void hq_handles_corrupt(void) { corrupt_harness(); }
extern "C" void hq_unique_step(void) { unique_harness<1>(); }
extern "C" void hq_unique_seq3(void) { unique_harness<3>(); }
extern "C" void ht_unique_seq5(void) { unique_harness<5>(); }

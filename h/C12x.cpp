// C12 (throwing element constructors): the TU is lowered WITH exceptions; the translator models throw / unwind /
// catch (...) with a pending flag (DESIGN 1.2).  A Variant in an arbitrary valid state undergoes one operation during
// which the k-th constructor/assignment of the Bomb alternative throws (k symbolic, 0 = never); afterwards the Variant
// must be empty or hold exactly one ALIVE alternative named by index(), nothing is leaked, nothing destroyed twice.
//@tu exceptions=1 unwind=8 memunwind=60
#include "vrt.h"
#include <new>
#include <nop/types/variant.h>
#include "bomb.h"

using V = nop::Variant<Tr<0>, Bomb, std::uint16_t>;
template <typename VT> struct Slot {
  alignas(VT) unsigned char mem[sizeof(VT)]; bool live = false;
  VT* p() { return reinterpret_cast<VT*>(mem); }
  void destroy() { if (live) { p()->~VT(); live = false; } }
};
static int holders(V& v) {   // tracked elements this Variant holds according to its own public state; also checks they are alive
  if (v.index() == 0) { vassert(v.get<Tr<0>>() != nullptr && v.get<Tr<0>>()->alive(), 20); return 1; }
  if (v.index() == 1) { vassert(v.get<Bomb>() != nullptr && v.get<Bomb>()->t.alive(), 21); return 1; }
  vassert(v.index() == -1 || v.index() == 2, 22);
  vassert((v.get<Tr<0>>() == nullptr) && (v.get<Bomb>() == nullptr), 23);
  return 0;
}
static void make(Slot<V>* s, std::uint8_t kind, std::int32_t x) {
  switch (kind % 4) {
    case 0: new (s->mem) V(); break;
    case 1: new (s->mem) V(Tr<0>(TrInit{x})); break;
    case 2: new (s->mem) V(Bomb(TrInit{x})); break;
    default: new (s->mem) V((std::uint16_t)x); break;
  }
  s->live = true;
}
extern "C" void hq_variant_throw(void) {
  const std::uint8_t k0 = nd8(), k1 = nd8(), op = nd8(), fz = nd8(); const std::int32_t x0 = (std::int32_t)nd32(), x1 = (std::int32_t)nd32(), y = (std::int32_t)nd32();
  TrStats::reset(); Bomb::fuse = 0;
  {
    Slot<V> a, b, c; make(&a, k0, x0); make(&b, k1, x1);
    Bomb lv(TrInit{y});                                  // an lvalue source, alive throughout
    Bomb::fuse = fz % 4;                                 // the fuse-th constructor/assignment from now on throws (0: none)
    bool threw = false;
    try {
      switch (op % 7) {
        case 0: *a.p() = Bomb(TrInit{y}); break;         // rvalue element assignment (same or different alternative)
        case 1: *a.p() = lv; break;                      // lvalue element assignment
        case 2: new (c.mem) V(*a.p()); c.live = true; break;          // copy construction
        case 3: new (c.mem) V(std::move(*a.p())); c.live = true; break;   // move construction
        case 4: a.p()->Become(1); break;                 // default construction of the throwing alternative
        case 5: *a.p() = *b.p(); break;                  // Variant copy assignment (Visit + element assignment)
        default: *a.p() = std::move(*b.p()); break;
      }
    } catch (...) { threw = true; }
    Bomb::fuse = 0;
    vassert(!threw || (fz % 4) != 0, 1);
    // every Variant is empty or holds exactly one alive alternative; the live count matches what the Variants report
    int expect = 1;                                      // lv
    expect += holders(*a.p()); expect += holders(*b.p()); if (c.live) expect += holders(*c.p());
    vassert(TrStats::live == expect, 2);                 // nothing leaked, nothing dead but still counted
    vassert(!TrStats::bad, 3);
    a.destroy(); b.destroy(); c.destroy();
    vassert(TrStats::live == 1 && !TrStats::bad, 4);     // only lv is left; no double destroy
  }
  vassert(TrStats::live == 0 && !TrStats::bad && TrStats::ctors == TrStats::dtors, 5);
  vrt_end();
}

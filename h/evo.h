// C07 support: cross-version entry comparison and the write / sentinel / read-back sequence.
#pragma once
#include "io.h"
#include "pool.h"
#include <nop/serializer.h>

struct S0b { u32 x; i16 y; NOP_STRUCTURE(S0b, x, y); };                    // member-wise fungible with S0
template <> struct Meta<S0b> : MetaStruct<S0b, F<S0b, u32, &S0b::x>, F<S0b, i16, &S0b::y>> {};
#ifndef VRT_HAVE_W8
#define VRT_HAVE_W8
struct W8 { u8 v; NOP_VALUE(W8, v); };
template <> struct Meta<W8> : MetaValue<W8, F<W8, u8, &W8::v>> {};
#endif

struct Wb { bool v; NOP_VALUE(Wb, v); };
template <> struct Meta<Wb> : MetaValue<Wb, F<Wb, bool, &Wb::v>> {};

// "the same value" across fungible entry types
static inline bool same_val(const bool& a, const bool& b) { return a == b; }
static inline bool same_val(const bool& a, const Wb& b) { return a == b.v; }
static inline bool same_val(const Wb& a, const bool& b) { return a.v == b; }
static inline bool same_val(const Wb& a, const Wb& b) { return a.v == b.v; }
static inline bool same_val(const float& a, const float& b) { return Meta<float>::eq(a, b); }
static inline bool same_val(const std::pair<bool, bool>& a, const std::pair<bool, bool>& b) { return a == b; }
static inline bool same_val(const std::pair<bool, bool>& a, const std::tuple<bool, bool>& b) { return a.first == std::get<0>(b) && a.second == std::get<1>(b); }
static inline bool same_val(const std::tuple<bool, bool>& a, const std::pair<bool, bool>& b) { return same_val(b, a); }
static inline bool same_val(const std::tuple<bool, bool>& a, const std::tuple<bool, bool>& b) { return a == b; }
static inline bool same_val(const nop::Optional<float>& a, const nop::Optional<float>& b) { return a.empty() == b.empty() && (a.empty() || Meta<float>::eq(a.get(), b.get())); }
static inline bool same_val(const u8& a, const u8& b) { return a == b; }
static inline bool same_val(const u8& a, const W8& b) { return a == b.v; }
static inline bool same_val(const W8& a, const u8& b) { return a.v == b; }
static inline bool same_val(const W8& a, const W8& b) { return a.v == b.v; }
static inline bool same_val(const u16& a, const u16& b) { return a == b; }
static inline bool same_val(const u32& a, const u32& b) { return a == b; }
static inline bool same_val(const std::pair<u8, u8>& a, const std::pair<u8, u8>& b) { return a == b; }
static inline bool same_val(const std::pair<u8, u8>& a, const std::tuple<u8, u8>& b) { return a.first == std::get<0>(b) && a.second == std::get<1>(b); }
static inline bool same_val(const std::tuple<u8, u8>& a, const std::pair<u8, u8>& b) { return same_val(b, a); }
static inline bool same_val(const std::tuple<u8, u8>& a, const std::tuple<u8, u8>& b) { return a == b; }
static inline bool same_val(const S0& a, const S0& b) { return a.a == b.a && a.b == b.b; }
static inline bool same_val(const S0& a, const S0b& b) { return a.a == b.x && a.b == b.y; }
static inline bool same_val(const S0b& a, const S0& b) { return a.x == b.a && a.y == b.b; }
static inline bool same_val(const S0b& a, const S0b& b) { return a.x == b.x && a.y == b.y; }
static inline bool same_val(const std::array<u8, 3>& a, const std::array<u8, 3>& b) { return a == b; }
static inline bool same_val(const nop::Optional<u8>& a, const nop::Optional<u8>& b) { return a.empty() == b.empty() && (a.empty() || a.get() == b.get()); }
template <typename A, typename B> static bool same_entry(const A& a, const B& b) {
  if (a.empty() != b.empty()) return false;
  return a.empty() || same_val(a.get(), b.get());
}

// write w and a sentinel, read as r, read the sentinel back: the reader ends positioned exactly after the table
#define EVO_ROUNDTRIP(w, r, sent) EVO_ROUNDTRIP_N(w, r, sent, 32)
#define EVO_ROUNDTRIP_N(w, r, sent, CAP)                                       \
  std::uint8_t buf[CAP] = {};                                                   \
  Wr<PBW> wr(buf, sizeof buf);                                                 \
  { auto s1 = wr.write(w); vassert(!!s1, 1); }                                 \
  const std::size_t n1 = wr.produced();                                        \
  { auto s2 = wr.write(sent); vassert(!!s2, 2); }                              \
  Rd<PBR> rd(buf, wr.produced());                                              \
  { auto s3 = rd.read(&r); vassert(!!s3, 3); }                                 \
  vassert(rd.consumed() == n1, 4);                                             \
  { u32 s2v = 0; auto s4 = rd.read(&s2v); vassert(!!s4 && s2v == sent, 5); }   \
  vassert(rd.consumed() == wr.produced(), 6)

// Heap containers (std::vector, std::basic_string) for C01 / C03 / C06: element COUNT is an enumerated bound
// (template argument), contents symbolic.  operator new/delete = static bump arena (rt/prelude.c, -DVRT_ARENA).
//@tu inline=1 unwind=10 memunwind=40 arena=512 mem=20 loop:vector.*ReadPayload=4 loop:vector.*WritePayload=4 loop:Meta.*vector=4 loop:Meta.*basic_string=4 loop:accumulate=4
//@h _c40|_c17|_c70|_c130 : unwind=140 memunwind=600 timeout=900 mem=30
#include "ser.h"
#include <string>
#include <vector>
#include <nop/base/string.h>
#include <nop/base/vector.h>
template class std::basic_string<char>;
template class std::basic_string<char16_t>;

template <typename T, int CNT, typename W, typename R>
static void hrt() {
  MetaCfg::heap_count = CNT;
  T v; Meta<T>::draw(&v);
  static std::uint8_t buf[CNT * 12 + 24];
  Wr<W> w(buf, sizeof buf);
  auto st = w.write(v);
  vassert(!!st, 1);
  const std::size_t n = w.produced();
  vassert(w.get_size(v) == n, 2);
  // reference bytes
  static std::uint8_t ref[sizeof buf];
  Out o(ref, sizeof ref); Meta<T>::enc(v, o);
  vassert(o.fits() && o.n == n, 3);
  const std::size_t j = nd16();
  if (j < n && j < sizeof buf) vassert(buf[j] == ref[j], 4);
  Rd<R> r(buf, n);
  T out; MetaCfg::heap_count = (CNT + 1) % 3; Meta<T>::draw(&out);     // destination holds a prior value of another size
  auto rs = r.read(&out);
  vassert(!!rs, 5);
  vassert(Meta<T>::eq(out, v), 6);
  vassert(r.consumed() == n, 7);
  vrt_end();
}
// write side only (one allocation): GetSize == produced == reference length, reference bytes; element counts whose
// COUNT and BYTE LENGTH need different integer classes (the BIN/STR length is in bytes)
template <typename T, int CNT, typename W>
static void hwr() {
  MetaCfg::heap_count = CNT;
  T v; Meta<T>::draw(&v);
  static std::uint8_t buf[CNT * 8 + 24];
  Wr<W> w(buf, sizeof buf);
  auto st = w.write(v);
  vassert(!!st, 1);
  const std::size_t n = w.produced();
  vassert(w.get_size(v) == n, 2);                          // GetSize equals the bytes written (no handles)
  static std::uint8_t ref[sizeof buf];
  Out o(ref, sizeof ref); Meta<T>::enc(v, o);
  vassert(o.fits() && o.n == n, 3);
  const std::size_t j = nd16();
  if (j < n && j < sizeof buf) vassert(buf[j] == ref[j], 4);
  vrt_end();
}
#define HW(tier, name, T, CNT, W) extern "C" void tier##_hwr_##name##_c##CNT##__##W(void) { hwr<T, CNT, W>(); }
#define HR(tier, name, T, CNT, W, R) extern "C" void tier##_hrt_##name##_c##CNT##__##W##__##R(void) { hrt<T, CNT, W, R>(); }
using VU8 = std::vector<u8>; using VU16 = std::vector<u16>; using VU32 = std::vector<u32>; using VU64 = std::vector<u64>; using VS0 = std::vector<S0>;
using STR = std::string; using STR16 = std::u16string; using VSTR = std::vector<std::string>; using VOPT = std::vector<nop::Optional<u16>>;
HR(hq, vu8, VU8, 0, PBW, PBR) HR(hq, vu8, VU8, 2, BW, BR) HR(ht, vu8, VU8, 3, SW, SR)
HR(hq, vu32, VU32, 1, PBW, PBR)
HR(hq, vu64, VU64, 2, PBW, BR)
HR(hq, str, STR, 0, PBW, PBR) HR(hq, str, STR, 2, BW, BR) HR(ht, str, STR, 3, SW, SR)
HR(hq, str16, STR16, 2, PBW, PBR)
//@h hrt_v(s0|opt|str)_ : timeout=1500
HR(ht, vs0, VS0, 0, PBW, PBR) HR(ht, vopt, VOPT, 2, PBW, PBR)
HW(hq, vu32, VU32, 40, PBW) HW(hq, vu64, VU64, 17, BW) HW(hq, vu16, VU16, 70, PBW) HW(hq, str16, STR16, 70, PBW)

// C16: BoundedReader / BoundedWriter confine all traffic to their byte limit.
// Shape: the wrapper is brought to an ARBITRARY state (limit = symbolic 64-bit,
// index = symbolic <= limit, reached through one successful Skip), then K
// symbolically chosen primitive calls with fully symbolic 64-bit sizes are
// applied and each is compared with the contract model below.  K=1 is the
// inductive step (covers histories of any length because the state
// (limit, index<=limit) is the whole state of the wrapper and every reachable
// state satisfies it); K=3 cross-checks that this invariant is reachable.
// The wrapped reader/writer is a logging stub that succeeds or fails with a
// symbolic error code at every call.
//@tu inline=1 unwind=12
#include "vrt.h"
#include <nop/status.h>
#include <nop/utility/bounded_reader.h>
#include <nop/utility/bounded_writer.h>

using nop::ErrorStatus;
using nop::Status;

enum Kind : int { kNone, kEnsure, kReadByte, kReadBlock, kSkip, kPrepare, kWriteByte, kWriteBlock };

struct Log {
  int calls = 0;
  Kind kind = kNone;
  std::uint64_t arg = 0;       // size / skip bytes
  const void* p0 = nullptr;    // block begin
  const void* p1 = nullptr;    // block end
  std::uint8_t value = 0;      // byte / padding value
  std::uint64_t moved = 0;     // bytes the wrapped object consumed/produced successfully
  bool fail_next = false;
  ErrorStatus err = ErrorStatus::IOError;
  Status<void> result(std::uint64_t bytes) {
    if (fail_next) return err;
    moved += bytes; return {};
  }
};

struct LogReader {
  Log* l;
  Status<void> Ensure(std::size_t s) { l->calls++; l->kind = kEnsure; l->arg = s; return l->result(0); }
  Status<void> Read(std::uint8_t* b) { l->calls++; l->kind = kReadByte; l->p0 = b; auto st = l->result(1); if (st) *b = 0x5a; return st; }
  template <typename T> Status<void> Read(T* b, T* e) { l->calls++; l->kind = kReadBlock; l->p0 = b; l->p1 = e; return l->result((std::uint64_t)(e - b) * sizeof(T)); }
  Status<void> Skip(std::size_t s) { l->calls++; l->kind = kSkip; l->arg = s; return l->result(s); }
};
struct LogWriter {
  Log* l;
  Status<void> Prepare(std::size_t s) { l->calls++; l->kind = kPrepare; l->arg = s; return l->result(0); }
  Status<void> Write(std::uint8_t b) { l->calls++; l->kind = kWriteByte; l->value = b; return l->result(1); }
  template <typename T> Status<void> Write(const T* b, const T* e) { l->calls++; l->kind = kWriteBlock; l->p0 = b; l->p1 = e; return l->result((std::uint64_t)(e - b) * sizeof(T)); }
  Status<void> Skip(std::size_t s, std::uint8_t v = 0) { l->calls++; l->kind = kSkip; l->arg = s; l->value = v; return l->result(s); }
};

static ErrorStatus draw_err() {
  // every error code other than None
  int e = nd8() % 18 + 1;
  return static_cast<ErrorStatus>(e);
}

struct Inputs { std::uint8_t op; std::uint64_t size; std::uint8_t len; std::uint8_t width; bool fail; ErrorStatus err; std::uint8_t val; };
static Inputs draw_inputs() {
  Inputs in; in.op = nd8(); in.size = nd64(); in.len = nd8(); in.width = nd8(); in.fail = ndbool(); in.err = draw_err(); in.val = nd8();
  return in;
}

template <int K>
static void reader_harness() {
  const std::uint64_t limit = nd64();
  const std::uint64_t start = nd64();
  Inputs in[K]; for (int i = 0; i < K; i++) in[i] = draw_inputs();
  vassume(start <= limit);

  Log log; LogReader lr{&log};
  nop::BoundedReader<LogReader> br{&lr, (std::size_t)limit};
  { auto st = br.Skip((std::size_t)start); vassert(!!st, 1); }
  std::uint64_t used = start;            // model
  vassert(br.size() == used && br.capacity() == limit, 2);

  static std::uint8_t b8[8]; static std::uint16_t b16[8]; static std::uint32_t b32[8]; static std::uint64_t b64[8];
  for (int i = 0; i < K; i++) {
    const int calls0 = log.calls; const std::uint64_t moved0 = log.moved;
    log.fail_next = in[i].fail; log.err = in[i].err;
    const std::uint64_t room = limit - used;
    Status<void> st; std::uint64_t want = 0; Kind kind = kNone; bool limited = false; const void* p0 = nullptr; const void* p1 = nullptr;
    const std::uint64_t len = in[i].len % 9;
    switch (in[i].op % 5) {
      case 0: kind = kEnsure; want = 0; limited = in[i].size > room; st = br.Ensure((std::size_t)in[i].size); break;
      case 1: { kind = kReadByte; want = 1; limited = room < 1; std::uint8_t byte = 0; p0 = &byte; st = br.Read(&byte); if (st) vassert(byte == 0x5a, 20); break; }
      case 2: {
        kind = kReadBlock;
        switch (in[i].width % 4) {
          case 0: want = len; p0 = b8; p1 = b8 + len; limited = want > room; st = br.Read(b8, b8 + len); break;
          case 1: want = len * 2; p0 = b16; p1 = b16 + len; limited = want > room; st = br.Read(b16, b16 + len); break;
          case 2: want = len * 4; p0 = b32; p1 = b32 + len; limited = want > room; st = br.Read(b32, b32 + len); break;
          default: want = len * 8; p0 = b64; p1 = b64 + len; limited = want > room; st = br.Read(b64, b64 + len); break;
        }
        break;
      }
      case 3: kind = kSkip; want = in[i].size; limited = want > room; st = br.Skip((std::size_t)in[i].size); break;
      default: kind = kSkip; want = room; limited = false; st = br.ReadPadding(); break;
    }
    if (limited) {
      // a call that would cross the limit fails with ReadLimitReached without touching the wrapped reader
      vassert(!st && st.error() == ErrorStatus::ReadLimitReached, 3);
      vassert(log.calls == calls0, 4);
    } else {
      // exactly one wrapped call, same arguments, same status
      vassert(log.calls == calls0 + 1, 5);
      vassert(log.kind == kind, 6);
      if (kind == kEnsure || kind == kSkip) vassert(log.arg == (kind == kEnsure ? in[i].size : want), 7);
      if (kind == kReadBlock) vassert(log.p0 == p0 && log.p1 == p1, 8);
      if (in[i].fail) vassert(!st && st.error() == in[i].err, 9); else vassert(!!st, 10);
      if (!in[i].fail) used += want;   // counted only when it succeeds
    }
    vassert(br.size() == used, 11);
    vassert(used <= limit, 12);
    vassert(log.moved - 0 == used - 0 && log.moved >= moved0, 13);  // wrapped reader consumed exactly what the wrapper counted
    vassert(br.empty() == (used == limit), 14);
    if ((in[i].op % 5) == 4 && !in[i].fail) vassert(used == limit && log.moved == limit, 15);  // ReadPadding leaves the wrapped reader at the limit
  }
  vrt_observe(used);
  vrt_end();
}

template <int K>
static void writer_harness() {
  const std::uint64_t limit = nd64();
  const std::uint64_t start = nd64();
  Inputs in[K]; for (int i = 0; i < K; i++) in[i] = draw_inputs();
  vassume(start <= limit);

  Log log; LogWriter lw{&log};
  nop::BoundedWriter<LogWriter> bw{&lw, (std::size_t)limit};
  { auto st = bw.Skip((std::size_t)start, 0); vassert(!!st, 1); }
  std::uint64_t used = start;
  vassert(bw.size() == used && bw.capacity() == limit, 2);

  static const std::uint8_t b8[8] = {}; static const std::uint16_t b16[8] = {}; static const std::uint32_t b32[8] = {}; static const std::uint64_t b64[8] = {};
  for (int i = 0; i < K; i++) {
    const int calls0 = log.calls;
    log.fail_next = in[i].fail; log.err = in[i].err;
    const std::uint64_t room = limit - used;
    Status<void> st; std::uint64_t want = 0; Kind kind = kNone; bool limited = false; const void* p0 = nullptr; const void* p1 = nullptr;
    const std::uint64_t len = in[i].len % 9;
    switch (in[i].op % 5) {
      case 0: kind = kPrepare; want = 0; limited = in[i].size > room; st = bw.Prepare((std::size_t)in[i].size); break;
      case 1: kind = kWriteByte; want = 1; limited = room < 1; st = bw.Write(in[i].val); break;
      case 2: {
        kind = kWriteBlock;
        switch (in[i].width % 4) {
          case 0: want = len; p0 = b8; p1 = b8 + len; limited = want > room; st = bw.Write(b8, b8 + len); break;
          case 1: want = len * 2; p0 = b16; p1 = b16 + len; limited = want > room; st = bw.Write(b16, b16 + len); break;
          case 2: want = len * 4; p0 = b32; p1 = b32 + len; limited = want > room; st = bw.Write(b32, b32 + len); break;
          default: want = len * 8; p0 = b64; p1 = b64 + len; limited = want > room; st = bw.Write(b64, b64 + len); break;
        }
        break;
      }
      case 3: kind = kSkip; want = in[i].size; limited = want > room; st = bw.Skip((std::size_t)in[i].size, in[i].val); break;
      default: kind = kSkip; want = room; limited = false; st = bw.WritePadding(in[i].val); break;
    }
    if (limited) {
      vassert(!st && st.error() == ErrorStatus::WriteLimitReached, 3);
      vassert(log.calls == calls0, 4);
    } else {
      vassert(log.calls == calls0 + 1, 5);
      vassert(log.kind == kind, 6);
      if (kind == kPrepare || kind == kSkip) vassert(log.arg == (kind == kPrepare ? in[i].size : want), 7);
      if (kind == kWriteBlock) vassert(log.p0 == p0 && log.p1 == p1, 8);
      if (kind == kWriteByte || kind == kSkip) vassert(log.value == in[i].val, 16);   // padding with the requested byte value
      if (in[i].fail) vassert(!st && st.error() == in[i].err, 9); else vassert(!!st, 10);
      if (!in[i].fail) used += want;
    }
    vassert(bw.size() == used, 11);
    vassert(used <= limit, 12);
    vassert(log.moved == used, 13);
    if ((in[i].op % 5) == 4 && !in[i].fail) vassert(used == limit && log.moved == limit, 15);
  }
  vrt_observe(used);
  vrt_end();
}

extern "C" void hq_bounded_reader_step(void) { reader_harness<1>(); }
extern "C" void hq_bounded_writer_step(void) { writer_harness<1>(); }
extern "C" void hq_bounded_reader_seq2(void) { reader_harness<2>(); }
extern "C" void hq_bounded_writer_seq2(void) { writer_harness<2>(); }
extern "C" void ht_bounded_reader_seq3(void) { reader_harness<3>(); }
extern "C" void ht_bounded_writer_seq3(void) { writer_harness<3>(); }
extern "C" void ht_bounded_reader_seq4(void) { reader_harness<4>(); }
extern "C" void ht_bounded_writer_seq4(void) { writer_harness<4>(); }

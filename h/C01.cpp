// C01: Read(Write(v)) == v for every writer/reader pairing, consuming exactly the bytes written,
// followed by a second value on the same stream.  Instantiation list: gen/C01_*.inc
//@tu unwind=10 memunwind=60 loop:ReadEntries=3 loop:StreamWriter.*Skip=3 loop:LogicalBuffer=6
//@h rt_T3_ : timeout_thorough=3000
//@h LB5 : unwind=40 memunwind=300
//@h LB6 : unwind=140 memunwind=170
#include "ser.h"
#ifndef VRT_INC
#define VRT_INC "gen/C01_q.inc"
#endif
#include VRT_INC

// C15 must-compile unit: "a value with handles round-trips ... also inside table entries".  A table entry whose
// type contains a Handle, written/read through a writer/reader that follows the documented handle contract
// (docs/getting-started.md: Status<HandleReference> PushHandle(const HandleType&), Status<HandleType>
// GetHandle(HandleReference)), must compile.  A compiler error here is reported as a violation.
//@tu must_compile=1 unwind=4
#include "vrt.h"
#include <nop/base/handle.h>
#include <nop/serializer.h>
#include <nop/table.h>
#include <nop/types/handle.h>
using IntHandle = nop::Handle<nop::DefaultHandlePolicy<int, -1>>;
struct W {
  nop::Status<void> Prepare(std::size_t) { return {}; }
  nop::Status<void> Write(std::uint8_t) { return {}; }
  template <typename T, typename Enable = nop::EnableIfArithmetic<T>> nop::Status<void> Write(const T*, const T*) { return {}; }
  nop::Status<void> Skip(std::size_t, std::uint8_t = 0) { return {}; }
  template <typename HandleType> nop::Status<nop::HandleReference> PushHandle(const HandleType&) { return {nop::HandleReference{0}}; }
};
struct R {
  nop::Status<void> Ensure(std::size_t) { return {}; }
  nop::Status<void> Read(std::uint8_t* b) { *b = 0; return nop::ErrorStatus::ReadLimitReached; }
  template <typename T, typename Enable = nop::EnableIfArithmetic<T>> nop::Status<void> Read(T*, T*) { return nop::ErrorStatus::ReadLimitReached; }
  nop::Status<void> Skip(std::size_t) { return {}; }
  template <typename HandleType> nop::Status<HandleType> GetHandle(nop::HandleReference) { return HandleType{}; }
};
struct TH { nop::Entry<IntHandle, 1> h; NOP_TABLE(TH, h); };
extern "C" void hq_must_compile(void) {
  W w; nop::Serializer<W*> s{&w}; TH t; t.h = IntHandle{3};
  auto st = s.Write(t); vassert(!!st, 1);
  R r; nop::Deserializer<R*> d{&r}; TH o; auto rs = d.Read(&o); vassert(!rs, 2);
  vrt_end();
}
extern "C" void hq_must_compile_twin(void) { vassert(nd8() < 256, 1); vrt_end(); }

// Nested table definitions shared by C07 (evolution) and C04 (decoder vs reference): the inner table is written with two
// entries; reading definitions lack or have deleted one of them, so the inner reader skips inside the outer entry frame.
#pragma once
#include "pool.h"
struct IW { nop::Entry<bool, 1> a; nop::Entry<float, 2> b; NOP_TABLE_HASH(0x61, IW, a, b); };
template <> struct Meta<IW> : MetaTable<IW, 0x61, E<IW, bool, 1, nop::Entry<bool, 1>, &IW::a>, E<IW, float, 2, nop::Entry<float, 2>, &IW::b>> {};
struct IRl { nop::Entry<bool, 1> a; NOP_TABLE_HASH(0x61, IRl, a); };                                            // lacks id 2
template <> struct Meta<IRl> : MetaTable<IRl, 0x61, E<IRl, bool, 1, nop::Entry<bool, 1>, &IRl::a>> {};
struct IRd { nop::Entry<bool, 1, nop::DeletedEntry> a; nop::Entry<float, 2> b; NOP_TABLE_HASH(0x61, IRd, a, b); };   // id 1 deleted
template <> struct Meta<IRd> : MetaTable<IRd, 0x61, DEL<IRd, 1>, E<IRd, float, 2, nop::Entry<float, 2>, &IRd::b>> {};
struct OW { nop::Entry<IW, 1> in; nop::Entry<bool, 2> x; NOP_TABLE_HASH(0x62, OW, in, x); };
template <> struct Meta<OW> : MetaTable<OW, 0x62, E<OW, IW, 1, nop::Entry<IW, 1>, &OW::in>, E<OW, bool, 2, nop::Entry<bool, 2>, &OW::x>> {};
struct ORl { nop::Entry<IRl, 1> in; nop::Entry<bool, 2> x; NOP_TABLE_HASH(0x62, ORl, in, x); };
template <> struct Meta<ORl> : MetaTable<ORl, 0x62, E<ORl, IRl, 1, nop::Entry<IRl, 1>, &ORl::in>, E<ORl, bool, 2, nop::Entry<bool, 2>, &ORl::x>> {};
struct ORd { nop::Entry<bool, 2> x; nop::Entry<IRd, 1> in; NOP_TABLE_HASH(0x62, ORd, x, in); };
template <> struct Meta<ORd> : MetaTable<ORd, 0x62, E<ORd, bool, 2, nop::Entry<bool, 2>, &ORd::x>, E<ORd, IRd, 1, nop::Entry<IRd, 1>, &ORd::in>> {};

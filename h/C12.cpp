// C12: Variant always holds exactly one live alternative or none.
// Inductive step: two Variants a,b (plus a spare slot) are put into ARBITRARY
// valid states (symbolic alternative, symbolic payload), one symbolically
// chosen public operation is applied, and the result is compared with a model
// (kind, payload) per object together with the lifetime invariant
//   #alive tracked elements == #variants whose model kind is a tracked type,
//   no destructor / copy / assignment ever touches a dead element.
// One step from every valid state covers operation histories of any length,
// because the model state (kind,payload) is exactly what the public API can
// observe and every operation is checked to map valid states to valid states.
// Sequences of K steps from the arbitrary states cross-check this.
// Outside the encodable code: element constructors that throw
// (-fno-exceptions lowering; invoke/landingpad are not modelled).
//@tu inline=1 unwind=80
#include "vrt.h"
#include <new>
#include <utility>
#include <nop/types/variant.h>
#include "tr.h"

using V = nop::Variant<Tr<0>, Tr<1>, std::uint16_t>;
using V2 = nop::Variant<std::uint16_t, Tr<0>>;           // other variant type sharing elements (cross-variant copy/assign)
struct Key { std::int32_t k; };
struct Conv { Conv(Key k) : t(TrInit{k.k}) {} Tr<2> t; };        // constructible from Key only: converting construct/assign
using W = nop::Variant<Tr<0>, Conv, std::uint16_t>;      // Conv is a *middle* alternative

struct Model { int kind; std::int32_t val; };            // kind -1 = empty

template <typename VT> struct Slot {
  alignas(VT) unsigned char mem[sizeof(VT)];
  bool live = false;
  VT* p() { return reinterpret_cast<VT*>(mem); }
  void destroy() { if (live) { p()->~VT(); live = false; } }
};

static void make(Slot<V>* s, Model* m, std::uint8_t kind, std::int32_t x) {
  switch (kind % 4) {
    case 0: new (s->mem) V(); *m = {-1, 0}; break;
    case 1: new (s->mem) V(Tr<0>(TrInit{x})); *m = {0, x}; break;
    case 2: new (s->mem) V(Tr<1>(TrInit{x})); *m = {1, x}; break;
    default: new (s->mem) V((std::uint16_t)x); *m = {2, (std::int32_t)(std::uint16_t)x}; break;
  }
  s->live = true;
}

struct Seen { int calls = 0; int kind = -2; std::int32_t val = 0; };
struct Visitor {
  Seen* s;
  void operator()(const Tr<0>& t) const { s->calls++; s->kind = 0; s->val = t.v; if (!t.alive()) TrStats::bad = true; }
  void operator()(const Tr<1>& t) const { s->calls++; s->kind = 1; s->val = t.v; if (!t.alive()) TrStats::bad = true; }
  void operator()(const std::uint16_t& t) const { s->calls++; s->kind = 2; s->val = t; }
  void operator()(const Conv& t) const { s->calls++; s->kind = 1; s->val = t.t.v; if (!t.t.alive()) TrStats::bad = true; }
  void operator()(nop::EmptyVariant) const { s->calls++; s->kind = -1; s->val = 0; }
};

static void check(V& v, const Model& m, int base) {
  vassert(v.index() == m.kind, base + 0);
  vassert(v.empty() == (m.kind == -1), base + 1);
  // get<T>() is non-null exactly when T is active, and denotes the model payload
  vassert((v.get<Tr<0>>() != nullptr) == (m.kind == 0), base + 2);
  vassert((v.get<Tr<1>>() != nullptr) == (m.kind == 1), base + 3);
  vassert((v.get<std::uint16_t>() != nullptr) == (m.kind == 2), base + 4);
  if (m.kind == 0 && v.get<Tr<0>>()) vassert(v.get<Tr<0>>()->v == m.val && v.get<Tr<0>>()->alive(), base + 5);
  if (m.kind == 1 && v.get<Tr<1>>()) vassert(v.get<Tr<1>>()->v == m.val && v.get<Tr<1>>()->alive(), base + 6);
  if (m.kind == 2 && v.get<std::uint16_t>()) vassert(*v.get<std::uint16_t>() == (std::uint16_t)m.val, base + 7);
  // Visit calls the visitor exactly once with the active element (or EmptyVariant)
  Seen s; v.Visit(Visitor{&s});
  vassert(s.calls == 1 && s.kind == m.kind && (m.kind == -1 || s.val == m.val), base + 8);
}

static int tracked(const Model& m, bool live) { return live && (m.kind == 0 || m.kind == 1) ? 1 : 0; }

struct Step { std::uint8_t op, i, j, sub; std::int32_t x; std::int32_t t; };
static Step draw_step() { Step s; s.op = nd8(); s.i = nd8(); s.j = nd8(); s.sub = nd8(); s.x = (std::int32_t)nd32(); s.t = (std::int32_t)nd32(); return s; }

template <int K>
static void variant_harness() {
  const std::uint8_t k0 = nd8(), k1 = nd8(); const std::int32_t x0 = (std::int32_t)nd32(), x1 = (std::int32_t)nd32();
  Step st[K]; for (int n = 0; n < K; n++) st[n] = draw_step();
  TrStats::reset();
  Slot<V> sl[3]; Model md[3] = {{-1, 0}, {-1, 0}, {-1, 0}};
  make(&sl[0], &md[0], k0, x0); make(&sl[1], &md[1], k1, x1);
  check(*sl[0].p(), md[0], 10); check(*sl[1].p(), md[1], 10);
  vassert(TrStats::live == tracked(md[0], true) + tracked(md[1], true) && !TrStats::bad, 1);

  for (int n = 0; n < K; n++) {
    const int i = st[n].i & 1, j = st[n].j & 1;
    if (!sl[i].live || !sl[j].live) continue;   // operand destroyed by an earlier step
    V& src = *sl[i].p(); V& dst = *sl[j].p();
    switch (st[n].op % 13) {
      case 0: if (!sl[2].live) { new (sl[2].mem) V(src); sl[2].live = true; md[2] = md[i]; } break;                 // copy-construct
      case 1: if (!sl[2].live) { new (sl[2].mem) V(std::move(src)); sl[2].live = true; md[2] = md[i]; } break;      // move-construct (source keeps its alternative)
      case 2: dst = src; md[j] = md[i]; break;                                                                     // copy-assign, incl. self
      case 3: dst = std::move(src); md[j] = md[i]; break;                                                          // move-assign, incl. self
      case 4: switch (st[n].sub % 3) {                                                                             // element assignment (same or different alternative)
                case 0: dst = Tr<0>(TrInit{st[n].x}); md[j] = {0, st[n].x}; break;
                case 1: dst = Tr<1>(TrInit{st[n].x}); md[j] = {1, st[n].x}; break;
                default: dst = (std::uint16_t)st[n].x; md[j] = {2, (std::int32_t)(std::uint16_t)st[n].x}; break;
              } break;
      case 5: dst = nop::EmptyVariant{}; md[j] = {-1, 0}; break;
      case 6: {                                                                                                    // Become(t): any int32, in or out of range
        const std::int32_t t = st[n].t; dst.Become(t);
        if (t != md[j].kind) { if (t >= 0 && t < 3) md[j] = {t, 0}; else md[j] = {-1, 0}; }
        break; }
      case 7: {                                                                                                    // Become(t, arg)
        const std::int32_t t = st[n].t; dst.Become(t, TrInit{st[n].x});
        if (t != md[j].kind) { if (t >= 0 && t < 3) md[j] = {t, t == 2 ? (std::int32_t)(std::uint16_t)st[n].x : st[n].x}; else md[j] = {-1, 0}; }
        break; }
      case 8: { const Tr<0> e(TrInit{st[n].x}); dst = e; md[j] = {0, st[n].x}; break; }                                    // assign from an lvalue element
      case 9: sl[j].destroy(); break;                                                                              // destruction
      case 10: {                                                                                                   // cross-variant copy-assign / converting construct from another Variant type
        V2 o; if (st[n].sub & 1) o = Tr<0>(TrInit{st[n].x}); else if (st[n].sub & 2) o = (std::uint16_t)st[n].x;
        const Model om = (st[n].sub & 1) ? Model{0, st[n].x} : (st[n].sub & 2) ? Model{2, (std::int32_t)(std::uint16_t)st[n].x} : Model{-1, 0};
        if (st[n].sub & 4) { dst = o; md[j] = om; }
        else if (!sl[2].live) { new (sl[2].mem) V(o); sl[2].live = true; md[2] = om; }
        break; }
      case 11: { V tmp(src); vassert(tmp.index() == src.index(), 40); check(tmp, md[i], 50); break; }              // copies compare equal to their source; temp destroyed here
      default: { std::swap(src, dst); const Model t = md[i]; md[i] = md[j]; md[j] = t; break; }                    // std::swap = move-construct + 2 move-assign
    }
    for (int s = 0; s < 3; s++) if (sl[s].live) check(*sl[s].p(), md[s], 20);
    vassert(TrStats::live == tracked(md[0], sl[0].live) + tracked(md[1], sl[1].live) + tracked(md[2], sl[2].live), 2);
    vassert(!TrStats::bad, 3);
  }
  for (int s = 0; s < 3; s++) sl[s].destroy();
  vassert(TrStats::live == 0, 4);                       // every constructed element destroyed exactly once
  vassert(!TrStats::bad && TrStats::ctors == TrStats::dtors, 5);
  vrt_observe((std::uint64_t)TrStats::ctors);
  vrt_end();
}

// Variants over convertible element types (Conv is constructible from Key and is a middle alternative).
static void check_w(W& w, const Model& m, int base) {
  vassert(w.index() == m.kind, base);
  vassert((w.get<Tr<0>>() != nullptr) == (m.kind == 0), base + 1);
  vassert((w.get<Conv>() != nullptr) == (m.kind == 1), base + 2);
  vassert((w.get<std::uint16_t>() != nullptr) == (m.kind == 2), base + 3);
  if (m.kind == 1 && w.get<Conv>()) vassert(w.get<Conv>()->t.v == m.val && w.get<Conv>()->t.alive(), base + 4);
  if (m.kind == 0 && w.get<Tr<0>>()) vassert(w.get<Tr<0>>()->v == m.val && w.get<Tr<0>>()->alive(), base + 5);
  Seen s; w.Visit(Visitor{&s});
  vassert(s.calls == 1 && s.kind == m.kind && (m.kind == -1 || s.val == m.val), base + 6);
}
static void convert_harness() {
  const std::uint8_t k = nd8(), op = nd8(); const std::int32_t x = (std::int32_t)nd32(), y = (std::int32_t)nd32();
  TrStats::reset();
  {
    Slot<W> a, b; Model ma{-1, 0}, mb{-1, 0};
    switch (k % 4) {
      case 0: new (a.mem) W(); ma = {-1, 0}; break;
      case 1: new (a.mem) W(Tr<0>(TrInit{x})); ma = {0, x}; break;
      case 2: new (a.mem) W(Key{x}); ma = {1, x}; break;                 // converting constructor into the middle alternative
      default: new (a.mem) W((std::uint16_t)x); ma = {2, (std::int32_t)(std::uint16_t)x}; break;
    }
    a.live = true;
    check_w(*a.p(), ma, 10);
    switch (op % 5) {
      case 0: *a.p() = Key{y}; ma = {1, y}; break;                        // converting assignment from every prior alternative
      case 1: new (b.mem) W(*a.p()); b.live = true; mb = ma; break;       // copy of a converted element
      case 2: new (b.mem) W(std::move(*a.p())); b.live = true; mb = ma; break;
      case 3: { const Key kk{y}; *a.p() = kk; ma = {1, y}; break; }       // lvalue conversion source
      default: *a.p() = nop::EmptyVariant{}; ma = {-1, 0}; break;
    }
    check_w(*a.p(), ma, 20);
    if (b.live) check_w(*b.p(), mb, 30);
    vassert(TrStats::live == ((ma.kind == 0 || ma.kind == 1) ? 1 : 0) + ((b.live && (mb.kind == 0 || mb.kind == 1)) ? 1 : 0), 2);
    vassert(!TrStats::bad, 3);
    a.destroy(); b.destroy();
  }
  vassert(TrStats::live == 0 && !TrStats::bad && TrStats::ctors == TrStats::dtors, 4);
  vrt_end();
}

extern "C" void hq_variant_step(void) { variant_harness<1>(); }
extern "C" void hq_variant_seq2(void) { variant_harness<2>(); }
extern "C" void ht_variant_seq3(void) { variant_harness<3>(); }
// (K = 4 gave no verdict in 1500 s; the one-step induction covers longer histories)
extern "C" void hq_variant_convert(void) { convert_harness(); }

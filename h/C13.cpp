// C13: Optional, Entry and Result keep a consistent state and element lifetime.
// Same shape as C12: objects in ARBITRARY valid states, one symbolically chosen
// public operation, comparison with a model (has/val resp. empty|error|value)
// plus the lifetime invariant (alive tracked values == engaged holders, no
// operation touches a dead value, construct/destroy paired).  K-step sequences
// cross-check.  Comparison operators: all 18, symbolic emptiness and values.
// Status<T>::GetErrorMessage: every ErrorStatus.
//@tu inline=1 unwind=80
#include "vrt.h"
#include <new>
#include <utility>
#include <nop/status.h>
#include <nop/table.h>
#include <nop/types/optional.h>
#include <nop/types/result.h>
#include "tr.h"

template <typename VT> struct Slot {
  alignas(VT) unsigned char mem[sizeof(VT)];
  bool live = false;
  VT* p() { return reinterpret_cast<VT*>(mem); }
  void destroy() { if (live) { p()->~VT(); live = false; } }
};

// ---- value adaptors: tracked and trivially destructible payloads
template <typename T> struct Val;
template <> struct Val<Tr<0>> {
  static Tr<0> make(std::int32_t x) { return Tr<0>(TrInit{x}); }
  static std::int32_t read(const Tr<0>& t) { if (!t.alive()) TrStats::bad = true; return t.v; }
  enum { tracked = 1 };
};
template <> struct Val<std::uint32_t> {
  static std::uint32_t make(std::int32_t x) { return (std::uint32_t)x; }
  static std::int32_t read(const std::uint32_t& t) { return (std::int32_t)t; }
  enum { tracked = 0 };
};

struct OM { bool has; std::int32_t val; };

template <typename O, typename T>
static void ocheck(O& o, const OM& m, int base) {
  vassert(o.empty() == !m.has, base);
  vassert(static_cast<bool>(o) == m.has, base + 1);
  if (m.has && !o.empty()) vassert(Val<T>::read(o.get()) == m.val, base + 2);
}

struct Step { std::uint8_t op, i, j, sub; std::int32_t x; };
static Step draw_step() { Step s; s.op = nd8(); s.i = nd8(); s.j = nd8(); s.sub = nd8(); s.x = (std::int32_t)nd32(); return s; }

template <typename O, typename T, int K>
static void optional_harness() {
  const bool h0 = ndbool(), h1 = ndbool(); const std::int32_t x0 = (std::int32_t)nd32(), x1 = (std::int32_t)nd32();
  Step st[K]; for (int n = 0; n < K; n++) st[n] = draw_step();
  TrStats::reset();
  Slot<O> sl[3]; OM md[3] = {{false, 0}, {false, 0}, {false, 0}};
  if (h0) { new (sl[0].mem) O(Val<T>::make(x0)); md[0] = {true, x0}; } else new (sl[0].mem) O();
  if (h1) { new (sl[1].mem) O(nop::InPlace{}, Val<T>::make(x1)); md[1] = {true, x1}; } else new (sl[1].mem) O();
  sl[0].live = sl[1].live = true;
  ocheck<O, T>(*sl[0].p(), md[0], 10); ocheck<O, T>(*sl[1].p(), md[1], 10);

  for (int n = 0; n < K; n++) {
    const int i = st[n].i & 1, j = st[n].j & 1;
    if (!sl[i].live || !sl[j].live) continue;
    O& src = *sl[i].p(); O& dst = *sl[j].p();
    switch (st[n].op % 11) {
      case 0: if (!sl[2].live) { new (sl[2].mem) O(src); sl[2].live = true; md[2] = md[i]; } break;                  // copy-construct
      case 1: if (!sl[2].live) { new (sl[2].mem) O(std::move(src)); sl[2].live = true; md[2] = md[i]; } break;       // move-construct: source stays engaged
      case 2: dst = src; md[j] = md[i]; break;                                                                      // copy-assign incl. self
      case 3: dst = std::move(src); if (i != j) { md[j] = md[i]; md[i] = {false, 0}; } break;                       // move-assign leaves the source empty
      case 4: { T v = Val<T>::make(st[n].x); dst = v; md[j] = {true, st[n].x}; break; }                             // assign lvalue value
      case 5: dst = Val<T>::make(st[n].x); md[j] = {true, st[n].x}; break;                                          // assign rvalue value
      case 6: dst.clear(); md[j] = {false, 0}; break;
      case 7: if (md[j].has) { T t = dst.take(); vassert(Val<T>::read(t) == md[j].val, 30); } break;                // take: moves out, holder stays engaged
      case 8: sl[j].destroy(); break;
      case 9: { O tmp; dst = tmp; md[j] = {false, 0}; break; }                                                      // assign an empty optional
      default: { std::swap(src, dst); const OM t = md[i]; md[i] = md[j]; md[j] = t; break; }
    }
    int engaged = 0;
    for (int s = 0; s < 3; s++) if (sl[s].live) { ocheck<O, T>(*sl[s].p(), md[s], 20); if (md[s].has) engaged++; }
    if (Val<T>::tracked) vassert(TrStats::live == engaged, 2);
    vassert(!TrStats::bad, 3);
  }
  for (int s = 0; s < 3; s++) sl[s].destroy();
  vassert(TrStats::live == 0 && !TrStats::bad && TrStats::ctors == TrStats::dtors, 4);
  vrt_observe((std::uint64_t)TrStats::ctors);
  vrt_end();
}

// Optional<U> -> Optional<T> converting assignment (trivial payloads)
static void optional_convert_harness() {
  const bool ha = ndbool(), hb = ndbool(); const std::uint32_t xa = nd32(); const std::uint16_t xb = nd16(); const std::uint8_t op = nd8();
  nop::Optional<std::uint32_t> a; if (ha) a = xa;
  nop::Optional<std::uint16_t> b; if (hb) b = xb;
  if (op & 1) { a = b; vassert(a.empty() == !hb && (!hb || a.get() == xb), 1); vassert(b.empty() == !hb, 2); }
  else { a = std::move(b); vassert(a.empty() == !hb && (!hb || a.get() == xb), 3); vassert(b.empty(), 4); }
  vrt_end();
}

// ---- Result
enum class Err : std::int32_t { None = 0, A = 1, B = 2, C = 7 };
struct RM { int st; std::int32_t val; };  // st 0 empty, 1 error (val = code != 0), 2 value

template <typename R, typename T>
static void rcheck(R& r, const RM& m, int base) {
  vassert(r.has_value() == (m.st == 2), base);
  vassert(r.has_error() == (m.st == 1), base + 1);
  vassert(static_cast<bool>(r) == (m.st == 2), base + 2);
  vassert(r.error() == (m.st == 1 ? static_cast<Err>(m.val) : Err::None), base + 3);
  if (m.st == 2 && r.has_value()) vassert(Val<T>::read(r.get()) == m.val, base + 4);
}
static Err err_of(std::uint8_t s) { switch (s % 4) { case 0: return Err::None; case 1: return Err::A; case 2: return Err::B; default: return Err::C; } }
static RM rm_err(Err e) { return e == Err::None ? RM{0, 0} : RM{1, static_cast<std::int32_t>(e)}; }

template <typename T, int K>
static void result_harness() {
  using R = nop::Result<Err, T>;
  const std::uint8_t s0 = nd8(), s1 = nd8(), e0 = nd8(), e1 = nd8(); const std::int32_t x0 = (std::int32_t)nd32(), x1 = (std::int32_t)nd32();
  Step st[K]; for (int n = 0; n < K; n++) st[n] = draw_step();
  TrStats::reset();
  Slot<R> sl[3]; RM md[3] = {{0, 0}, {0, 0}, {0, 0}};
  switch (s0 % 3) { case 0: new (sl[0].mem) R(); break; case 1: new (sl[0].mem) R(err_of(e0)); md[0] = rm_err(err_of(e0)); break; default: new (sl[0].mem) R(Val<T>::make(x0)); md[0] = {2, x0}; }
  switch (s1 % 3) { case 0: new (sl[1].mem) R(); break; case 1: new (sl[1].mem) R(err_of(e1)); md[1] = rm_err(err_of(e1)); break; default: { T v = Val<T>::make(x1); new (sl[1].mem) R(v); md[1] = {2, x1}; } }
  sl[0].live = sl[1].live = true;
  rcheck<R, T>(*sl[0].p(), md[0], 10); rcheck<R, T>(*sl[1].p(), md[1], 10);

  for (int n = 0; n < K; n++) {
    const int i = st[n].i & 1, j = st[n].j & 1;
    if (!sl[i].live || !sl[j].live) continue;
    R& src = *sl[i].p(); R& dst = *sl[j].p();
    switch (st[n].op % 10) {
      case 0: if (!sl[2].live) { new (sl[2].mem) R(src); sl[2].live = true; md[2] = md[i]; } break;
      case 1: if (!sl[2].live) { new (sl[2].mem) R(std::move(src)); sl[2].live = true; md[2] = md[i]; md[i] = {0, 0}; } break;  // Result's move constructor empties the source
      case 2: dst = src; md[j] = md[i]; break;
      case 3: dst = std::move(src); if (i != j) { md[j] = md[i]; md[i] = {0, 0}; } break;
      case 4: { T v = Val<T>::make(st[n].x); dst = v; md[j] = {2, st[n].x}; break; }
      case 5: dst = Val<T>::make(st[n].x); md[j] = {2, st[n].x}; break;
      case 6: dst = err_of(st[n].sub); md[j] = rm_err(err_of(st[n].sub)); break;                                     // error assign, incl. None => empty
      case 7: dst.clear(); md[j] = {0, 0}; break;
      case 8: if (md[j].st == 2) { T t = dst.take(); vassert(Val<T>::read(t) == md[j].val, 30); } break;
      default: sl[j].destroy(); break;
    }
    int engaged = 0;
    for (int s = 0; s < 3; s++) if (sl[s].live) { rcheck<R, T>(*sl[s].p(), md[s], 20); if (md[s].st == 2) engaged++; }
    if (Val<T>::tracked) vassert(TrStats::live == engaged, 2);
    vassert(!TrStats::bad, 3);
  }
  for (int s = 0; s < 3; s++) sl[s].destroy();
  vassert(TrStats::live == 0 && !TrStats::bad && TrStats::ctors == TrStats::dtors, 4);
  vrt_end();
}

static void status_void_harness() {
  using S = nop::Status<void>;
  const std::uint8_t ea = nd8(), eb = nd8(), op = nd8();
  const nop::ErrorStatus A = static_cast<nop::ErrorStatus>(ea % 19), B = static_cast<nop::ErrorStatus>(eb % 19);
  S a{A}, b{B};
  vassert(a.has_error() == (A != nop::ErrorStatus::None) && static_cast<bool>(a) == (A == nop::ErrorStatus::None) && a.error() == A, 1);
  switch (op % 5) {
    case 0: a = b; vassert(a.error() == B && b.error() == B, 2); break;
    case 1: a = std::move(b); vassert(a.error() == B && !b.has_error(), 3); break;
    case 2: { S c{std::move(b)}; vassert(c.error() == B && !b.has_error(), 4); break; }
    case 3: a.clear(); vassert(!a.has_error() && static_cast<bool>(a), 5); break;
    default: { S c{a}; vassert(c.error() == A && a.error() == A, 6); break; }
  }
  vrt_end();
}

// ---- 18 comparison operators; oracle: empty < every value, else the values decide
static void compare_harness() {
  const bool ha = ndbool(), hb = ndbool(); const std::int32_t x = (std::int32_t)nd32(), y = (std::int32_t)nd32();
  nop::Optional<std::int32_t> a, b; if (ha) a = x; if (hb) b = y;
  // rank: empty = (0, _), value = (1, v)
  const bool eq = (ha == hb) && (!ha || x == y);
  const bool lt = (!ha && hb) || (ha && hb && x < y);
  const bool gt = (ha && !hb) || (ha && hb && x > y);
  vassert((a == b) == eq, 1); vassert((a != b) == !eq, 2); vassert((a < b) == lt, 3);
  vassert((a > b) == gt, 4); vassert((a <= b) == !gt, 5); vassert((a >= b) == !lt, 6);
  // Optional - value
  const bool eqv = ha && x == y, ltv = !ha || x < y, gtv = ha && x > y;
  vassert((a == y) == eqv, 7); vassert((a != y) == !eqv, 8); vassert((a < y) == ltv, 9);
  vassert((a > y) == gtv, 10); vassert((a <= y) == !gtv, 11); vassert((a >= y) == !ltv, 12);
  // value - Optional
  const bool veq = hb && x == y, vlt = hb && x < y, vgt = !hb || x > y;
  vassert((x == b) == veq, 13); vassert((x != b) == !veq, 14); vassert((x < b) == vlt, 15);
  vassert((x > b) == vgt, 16); vassert((x <= b) == !vgt, 17); vassert((x >= b) == !vlt, 18);
  // consistency between the two operand forms: comparing with an engaged Optional == comparing with its value
  nop::Optional<std::int32_t> by{y};
  vassert((a < by) == (a < y) && (a == by) == (a == y) && (a > by) == (a > y), 19);
  vrt_end();
}

static void error_message_harness() {
  const std::uint8_t e = nd8(); vassume(e <= 18);
  nop::Status<int> s{static_cast<nop::ErrorStatus>(e)};
  const char* m = s.GetErrorMessage();
  vassert(m != nullptr, 1);
  std::size_t n = 0; while (n < 40 && m[n]) n++;
  vassert(n > 0 && n < 40, 2);
  const char* u = "Unknown Error"; bool same = true; for (std::size_t k = 0; k <= 13; k++) if (m[k] != u[k]) { same = false; break; }
  vassert(!same, 3);
  nop::Status<void> sv{static_cast<nop::ErrorStatus>(e)};
  const char* mv = sv.GetErrorMessage(); bool same2 = true; for (std::size_t k = 0; k <= n; k++) if (mv[k] != m[k]) { same2 = false; break; }
  vassert(same2, 4);
  vrt_end();
}

using OptTr = nop::Optional<Tr<0>>;
using EntTr = nop::Entry<Tr<0>, 7>;
using OptU = nop::Optional<std::uint32_t>;
using EntU = nop::Entry<std::uint32_t, 1>;
extern "C" void hq_optional_tr_step(void) { optional_harness<OptTr, Tr<0>, 1>(); }
extern "C" void hq_entry_tr_step(void) { optional_harness<EntTr, Tr<0>, 1>(); }
extern "C" void hq_optional_trivial_step(void) { optional_harness<OptU, std::uint32_t, 1>(); }
extern "C" void hq_entry_trivial_step(void) { optional_harness<EntU, std::uint32_t, 1>(); }
extern "C" void hq_optional_tr_seq2(void) { optional_harness<OptTr, Tr<0>, 2>(); }
extern "C" void ht_entry_tr_seq2(void) { optional_harness<EntTr, Tr<0>, 2>(); }
extern "C" void ht_optional_tr_seq3(void) { optional_harness<OptTr, Tr<0>, 3>(); }
extern "C" void ht_optional_trivial_seq3(void) { optional_harness<OptU, std::uint32_t, 3>(); }
extern "C" void hq_optional_convert(void) { optional_convert_harness(); }
extern "C" void hq_result_tr_step(void) { result_harness<Tr<0>, 1>(); }
extern "C" void hq_result_trivial_step(void) { result_harness<std::uint32_t, 1>(); }
extern "C" void hq_result_tr_seq2(void) { result_harness<Tr<0>, 2>(); }
extern "C" void ht_result_tr_seq3(void) { result_harness<Tr<0>, 3>(); }
extern "C" void ht_result_trivial_seq3(void) { result_harness<std::uint32_t, 3>(); }
extern "C" void hq_status_void(void) { status_void_harness(); }
extern "C" void hq_compare18(void) { compare_harness(); }
extern "C" void hq_error_message(void) { error_message_harness(); }

// Deleted entries are always empty
extern "C" void hq_deleted_entry(void) {
  nop::Entry<std::uint8_t, 1, nop::DeletedEntry> d; d.clear();
  vassert(d.empty() && !static_cast<bool>(d), 1);
  vrt_end();
}

// C13 (throwing value constructors): Optional / Result in an arbitrary valid state, one operation during which the
// k-th constructor/assignment of the value type throws; afterwards: engaged => exactly one alive value, else none.
//@tu exceptions=1 unwind=8 memunwind=60
#include "vrt.h"
#include <new>
#include <nop/types/optional.h>
#include <nop/types/result.h>
#include "bomb.h"
enum class Err : std::int32_t { None = 0, A = 1 };
template <typename VT> struct Slot {
  alignas(VT) unsigned char mem[sizeof(VT)]; bool live = false;
  VT* p() { return reinterpret_cast<VT*>(mem); }
  void destroy() { if (live) { p()->~VT(); live = false; } }
};
using O = nop::Optional<Bomb>;
static int oh(O& o) { if (!o.empty()) { vassert(o.get().t.alive(), 20); return 1; } return 0; }
extern "C" void hq_optional_throw(void) {
  const bool h0 = ndbool(), h1 = ndbool(); const std::uint8_t op = nd8(), fz = nd8(); const std::int32_t x = (std::int32_t)nd32();
  TrStats::reset(); Bomb::fuse = 0;
  {
    Slot<O> a, b, c;
    if (h0) new (a.mem) O(nop::InPlace{}, TrInit{x}); else new (a.mem) O(); a.live = true;
    if (h1) new (b.mem) O(nop::InPlace{}, TrInit{x}); else new (b.mem) O(); b.live = true;
    Bomb lv(TrInit{x});
    Bomb::fuse = fz % 4; bool threw = false;
    try {
      switch (op % 7) {
        case 0: *a.p() = lv; break;
        case 1: *a.p() = Bomb(TrInit{x}); break;
        case 2: *a.p() = *b.p(); break;
        case 3: *a.p() = std::move(*b.p()); break;
        case 4: new (c.mem) O(*a.p()); c.live = true; break;
        case 5: new (c.mem) O(std::move(*a.p())); c.live = true; break;
        default: a.p()->clear(); break;   // (in-place / value construction goes through Optional's unconditionally noexcept storage constructor: a throwing value constructor there calls std::terminate by design; not part of C13)
      }
    } catch (...) { threw = true; }
    Bomb::fuse = 0;
    vassert(!threw || (fz % 4) != 0, 1);
    int expect = 1 + oh(*a.p()) + oh(*b.p()) + (c.live ? oh(*c.p()) : 0);
    vassert(TrStats::live == expect, 2);
    vassert(!TrStats::bad, 3);
    a.destroy(); b.destroy(); c.destroy();
    vassert(TrStats::live == 1 && !TrStats::bad, 4);
  }
  vassert(TrStats::live == 0 && !TrStats::bad && TrStats::ctors == TrStats::dtors, 5);
  vrt_end();
}
using R = nop::Result<Err, Bomb>;
static int rh(R& r) { if (r.has_value()) { vassert(r.get().t.alive() && !r.has_error(), 21); return 1; } return 0; }
extern "C" void hq_result_throw(void) {
  const std::uint8_t s0 = nd8(), s1 = nd8(), op = nd8(), fz = nd8(); const std::int32_t x = (std::int32_t)nd32();
  TrStats::reset(); Bomb::fuse = 0;
  {
    Slot<R> a, b, c;
    if (s0 % 3 == 0) new (a.mem) R(); else if (s0 % 3 == 1) new (a.mem) R(Err::A); else new (a.mem) R(Bomb(TrInit{x})); a.live = true;
    if (s1 % 3 == 0) new (b.mem) R(); else if (s1 % 3 == 1) new (b.mem) R(Err::A); else new (b.mem) R(Bomb(TrInit{x})); b.live = true;
    Bomb lv(TrInit{x});
    Bomb::fuse = fz % 4; bool threw = false;
    try {
      switch (op % 6) {
        case 0: *a.p() = lv; break;
        case 1: *a.p() = Bomb(TrInit{x}); break;
        case 2: *a.p() = *b.p(); break;
        case 3: *a.p() = std::move(*b.p()); break;
        case 4: new (c.mem) R(*a.p()); c.live = true; break;
        default: new (c.mem) R(lv); c.live = true; break;
      }
    } catch (...) { threw = true; }
    Bomb::fuse = 0;
    int expect = 1 + rh(*a.p()) + rh(*b.p()) + (c.live ? rh(*c.p()) : 0);
    vassert(TrStats::live == expect, 2);
    vassert(!TrStats::bad, 3);
    vassert(!(a.p()->has_value() && a.p()->has_error()), 6);
    a.destroy(); b.destroy(); c.destroy();
    vassert(TrStats::live == 1 && !TrStats::bad, 4);
  }
  vassert(TrStats::live == 0 && !TrStats::bad && TrStats::ctors == TrStats::dtors, 5);
  vrt_end();
}

// Reader / writer adaptors over one byte buffer for every library-provided
// reader and writer, plus the environment models (stream, fd) they run on.
//   Wr<Tag>(buf, cap): write(v), produced(), get_size(v)
//   Rd<Tag>(buf, n):   read(&v), consumed()
// Models (part of the claim, validated natively against std::stringstream and
// pipe(2) by tools/validate_models.cpp):
//   ModelIStream / ModelOStream : [istream.unformatted] / [ostream.unformatted]
//     state bits over an in-memory character sequence (stringbuf semantics:
//     seeking outside [0,size] fails with failbit).
//   vrt_read/vrt_write/vrt_close : POSIX read(2)/write(2) on a byte file; the calls
//     whose index is set in the concrete schedule kEintrMask (calls 0, 2, 5, 6, 11:
//     single and back-to-back interruptions) fail with EINTR first.  A symbolic
//     schedule makes every retry loop unwind to the global bound for every byte.
#pragma once
#include "vrt.h"
#include <errno.h>
#include <unistd.h>
#include <algorithm>
#include <ios>
#include <istream>
#include <iterator>
#include <memory>
#include <ostream>
#include <string>
#include <vector>
#include <nop/base/encoding.h>
#include <nop/status.h>

// ---------------------------------------------------------------- fd model
static const std::uint64_t kEintrMask = 0x865;   // calls 0, 2, 5, 6, 11
struct VrtFd {
  static const std::uint8_t* rbuf; static std::size_t rlen, rpos;
  static std::uint8_t* wbuf; static std::size_t wcap, wpos;
  static std::uint64_t eintr_mask; static unsigned calls; static bool inject_eio;
};
const std::uint8_t* VrtFd::rbuf = nullptr; std::size_t VrtFd::rlen = 0, VrtFd::rpos = 0;
std::uint8_t* VrtFd::wbuf = nullptr; std::size_t VrtFd::wcap = 0, VrtFd::wpos = 0;
std::uint64_t VrtFd::eintr_mask = 0; unsigned VrtFd::calls = 0; bool VrtFd::inject_eio = false;
extern "C" {
static inline ssize_t vrt_read(int, void* p, std::size_t n) {
  { const unsigned k = VrtFd::calls++; if (k < 64 && ((VrtFd::eintr_mask >> k) & 1)) { errno = EINTR; return -1; } }
  if (VrtFd::inject_eio && ndbool()) { errno = EIO; return -1; }
  if (n == 0 || VrtFd::rpos >= VrtFd::rlen) return 0;
  *static_cast<std::uint8_t*>(p) = VrtFd::rbuf[VrtFd::rpos++];   // the library only issues 1-byte reads
  return 1;
}
static inline ssize_t vrt_write(int, const void* p, std::size_t n) {
  { const unsigned k = VrtFd::calls++; if (k < 64 && ((VrtFd::eintr_mask >> k) & 1)) { errno = EINTR; return -1; } }
  if (VrtFd::inject_eio && ndbool()) { errno = EIO; return -1; }
  if (n == 0 || VrtFd::wpos >= VrtFd::wcap) return 0;
  VrtFd::wbuf[VrtFd::wpos++] = *static_cast<const std::uint8_t*>(p);
  return 1;
}
static inline int vrt_close(int) { return 0; }
}
#define read vrt_read
#define write vrt_write
#define close vrt_close
#include <nop/utility/fd_reader.h>
#include <nop/utility/fd_writer.h>
#undef read
#undef write
#undef close

#include <nop/serializer.h>
#include <nop/utility/bounded_reader.h>
#include <nop/utility/bounded_writer.h>
#include <nop/utility/buffer_reader.h>
#include <nop/utility/buffer_writer.h>
#include <nop/utility/constexpr_buffer_writer.h>
#include <nop/utility/pedantic_buffer_reader.h>
#include <nop/utility/pedantic_buffer_writer.h>
#include <nop/utility/stream_reader.h>
#include <nop/utility/stream_writer.h>

// ---------------------------------------------------------------- stream models
class ModelIStream {
 public:
  using char_type = char;
  ModelIStream(const std::uint8_t* p, std::size_t n) : p_(p), n_(n) {}
  ModelIStream& read(char* s, std::streamsize count) {
    gcount_ = 0;
    if (state_ != 0) { state_ |= kFail; return *this; }            // sentry fails
    std::streamsize i = 0;
    for (; i < count; i++) { if (pos_ >= n_) { state_ |= kEof | kFail; break; } s[i] = (char)p_[pos_++]; }
    gcount_ = i; return *this;
  }
  ModelIStream& ignore(std::streamsize count) {
    gcount_ = 0;
    if (state_ != 0) { state_ |= kFail; return *this; }
    std::streamsize i = 0;
    for (; i < count; i++) { if (pos_ >= n_) { state_ |= kEof; break; } pos_++; }
    gcount_ = i; return *this;
  }
  ModelIStream& seekg(std::streamoff off, std::ios_base::seekdir dir) {
    state_ &= ~kEof;                                                 // C++11: seekg clears eofbit first
    if (state_ & (kFail | kBad)) return *this;
    // stringbuf: positions outside [0, size] fail
    std::streamoff base = dir == std::ios_base::beg ? 0 : dir == std::ios_base::cur ? (std::streamoff)pos_ : (std::streamoff)n_;
    const std::streamoff np = (std::streamoff)((std::uint64_t)base + (std::uint64_t)off);
    if (np < 0 || np > (std::streamoff)n_ || (off > 0 && np < base) || (off < 0 && np > base)) { state_ |= kFail; return *this; }
    pos_ = (std::size_t)np; return *this;
  }
  std::streamsize gcount() const { return gcount_; }
  bool bad() const { return (state_ & kBad) != 0; }
  bool eof() const { return (state_ & kEof) != 0; }
  bool fail() const { return (state_ & (kFail | kBad)) != 0; }
  std::size_t tell() const { return pos_; }
 private:
  enum { kEof = 1, kFail = 2, kBad = 4 };
  const std::uint8_t* p_; std::size_t n_; std::size_t pos_ = 0; int state_ = 0; std::streamsize gcount_ = 0;
};
class ModelOStream {
 public:
  using char_type = char;
  ModelOStream(std::uint8_t* p, std::size_t cap) : p_(p), cap_(cap) {}
  ModelOStream& put(char c) { if (state_) { state_ |= 2; return *this; } if (n_ >= cap_) { state_ |= 4; return *this; } p_[n_++] = (std::uint8_t)c; return *this; }
  ModelOStream& write(const char* s, std::streamsize count) { if (state_) { state_ |= 2; return *this; } for (std::streamsize i = 0; i < count; i++) { if (n_ >= cap_) { state_ |= 4; break; } p_[n_++] = (std::uint8_t)s[i]; } return *this; }
  bool bad() const { return (state_ & 4) != 0; }
  bool eof() const { return false; }
  bool fail() const { return (state_ & 6) != 0; }
  std::size_t count() const { return n_; }
 private:
  std::uint8_t* p_; std::size_t cap_; std::size_t n_ = 0; int state_ = 0;
};

// ---------------------------------------------------------------- tags
struct BW {}; struct PBW {}; struct CBW {}; struct SW {}; struct FW {};
template <typename Inner> struct BndW {};
struct BR {}; struct PBR {}; struct SR {}; struct FR {};
template <typename Inner> struct BndR {};

template <typename Tag> struct Wr;
template <typename LibW> struct WrBuf {
  nop::Serializer<LibW> s;
  WrBuf(std::uint8_t* b, std::size_t cap) : s{b, cap} {}
  template <typename T> nop::Status<void> write(const T& v) { return s.Write(v); }
  template <typename T> std::size_t get_size(const T& v) { return s.GetSize(v); }
  std::size_t produced() const { return s.writer().size(); }
  LibW* raw() { return &s.writer(); }
  void sync() {}
};
template <> struct Wr<BW> : WrBuf<nop::BufferWriter> { using WrBuf::WrBuf; enum { checked = 0, has_skip = 1 }; };
template <> struct Wr<PBW> : WrBuf<nop::PedanticBufferWriter> { using WrBuf::WrBuf; enum { checked = 1, has_skip = 1 }; };
template <> struct Wr<CBW> : WrBuf<nop::ConstexprBufferWriter> { using WrBuf::WrBuf; enum { checked = 1, has_skip = 1 }; };
#ifdef VRT_REAL_STREAMS
// Native builds (differential validation and counterexample replay) run the library's StreamReader/StreamWriter on the
// REAL std::istringstream / std::ostringstream; the CBMC build runs them on the models above.  The differential run
// therefore validates the stream models against libstdc++ on every check.
#include <sstream>
template <> struct Wr<SW> {
  enum { checked = 1, has_skip = 1 };
  nop::Serializer<nop::StreamWriter<std::ostringstream>> s; std::uint8_t* b_; std::size_t cap_;
  Wr(std::uint8_t* b, std::size_t cap) : b_(b), cap_(cap) {}
  template <typename T> nop::Status<void> write(const T& v) { auto st = s.Write(v); sync(); return st; }
  template <typename T> std::size_t get_size(const T& v) { return s.GetSize(v); }
  void sync() { const std::string d = s.writer().stream().str(); for (std::size_t i = 0; i < d.size() && i < cap_; i++) b_[i] = (std::uint8_t)d[i]; }
  std::size_t produced() { return s.writer().stream().str().size(); }
  nop::StreamWriter<std::ostringstream>* raw() { return &s.writer(); }
};
#else
template <> struct Wr<SW> {
  enum { checked = 1, has_skip = 1 };
  nop::Serializer<nop::StreamWriter<ModelOStream>> s;
  Wr(std::uint8_t* b, std::size_t cap) : s{b, cap} {}
  template <typename T> nop::Status<void> write(const T& v) { return s.Write(v); }
  template <typename T> std::size_t get_size(const T& v) { return s.GetSize(v); }
  std::size_t produced() const { return s.writer().stream().count(); }
  nop::StreamWriter<ModelOStream>* raw() { return &s.writer(); }
  void sync() {}
};
#endif
template <> struct Wr<FW> {
  enum { checked = 1, has_skip = 0 };
  nop::Serializer<nop::FdWriter> s;
  Wr(std::uint8_t* b, std::size_t cap) : s{3} { VrtFd::wbuf = b; VrtFd::wcap = cap; VrtFd::wpos = 0; VrtFd::eintr_mask = kEintrMask; VrtFd::calls = 0; VrtFd::inject_eio = false; }
  template <typename T> nop::Status<void> write(const T& v) { return s.Write(v); }
  template <typename T> std::size_t get_size(const T& v) { return s.GetSize(v); }
  std::size_t produced() const { return VrtFd::wpos; }
  nop::FdWriter* raw() { return &s.writer(); }
  void sync() {}
};
template <typename Inner> struct Wr<BndW<Inner>> {
  enum { checked = 1, has_skip = Wr<Inner>::has_skip };
  Wr<Inner> inner;
  using LibInner = std::remove_pointer_t<decltype(std::declval<Wr<Inner>>().raw())>;
  nop::Serializer<nop::BoundedWriter<LibInner>> s;
  Wr(std::uint8_t* b, std::size_t cap) : inner(b, cap), s{inner.raw(), cap} {}
  Wr(std::uint8_t* b, std::size_t cap, std::size_t bound) : inner(b, cap), s{inner.raw(), bound} {}
  template <typename T> nop::Status<void> write(const T& v) { return s.Write(v); }
  template <typename T> std::size_t get_size(const T& v) { return s.GetSize(v); }
  std::size_t produced() const { return s.writer().size(); }
  nop::BoundedWriter<LibInner>* raw() { return &s.writer(); }
  void sync() { inner.sync(); }
};

template <typename Tag> struct Rd;
template <typename LibR> struct RdBuf {
  nop::Deserializer<LibR> d;
  RdBuf(const std::uint8_t* b, std::size_t n) : d{b, n} {}
  template <typename T> nop::Status<void> read(T* v) { return d.Read(v); }
  std::size_t consumed() const { return d.reader().capacity() - d.reader().remaining(); }
  LibR* raw() { return &d.reader(); }
};
template <> struct Rd<BR> : RdBuf<nop::BufferReader> { using RdBuf::RdBuf; enum { has_skip = 1 }; };
template <> struct Rd<PBR> : RdBuf<nop::PedanticBufferReader> { using RdBuf::RdBuf; enum { has_skip = 1 }; };
#ifdef VRT_REAL_STREAMS
template <> struct Rd<SR> {
  enum { has_skip = 1 };
  nop::Deserializer<nop::StreamReader<std::istringstream>> d;
  Rd(const std::uint8_t* b, std::size_t n) : d{std::string(reinterpret_cast<const char*>(b), n)} {}
  template <typename T> nop::Status<void> read(T* v) { return d.Read(v); }
  std::size_t consumed() { d.reader().stream().clear(); return (std::size_t)d.reader().stream().tellg(); }
  nop::StreamReader<std::istringstream>* raw() { return &d.reader(); }
};
#else
template <> struct Rd<SR> {
  enum { has_skip = 1 };
  nop::Deserializer<nop::StreamReader<ModelIStream>> d;
  Rd(const std::uint8_t* b, std::size_t n) : d{b, n} {}
  template <typename T> nop::Status<void> read(T* v) { return d.Read(v); }
  std::size_t consumed() const { return d.reader().stream().tell(); }
  nop::StreamReader<ModelIStream>* raw() { return &d.reader(); }
};
#endif
template <> struct Rd<FR> {
  enum { has_skip = 0 };
  nop::Deserializer<nop::FdReader> d;
  Rd(const std::uint8_t* b, std::size_t n) : d{4} { VrtFd::rbuf = b; VrtFd::rlen = n; VrtFd::rpos = 0; VrtFd::eintr_mask = kEintrMask; VrtFd::calls = 0; VrtFd::inject_eio = false; }
  template <typename T> nop::Status<void> read(T* v) { return d.Read(v); }
  std::size_t consumed() const { return VrtFd::rpos; }
  nop::FdReader* raw() { return &d.reader(); }
};
template <typename Inner> struct Rd<BndR<Inner>> {
  enum { has_skip = Rd<Inner>::has_skip };
  Rd<Inner> inner;
  using LibInner = std::remove_pointer_t<decltype(std::declval<Rd<Inner>>().raw())>;
  nop::Deserializer<nop::BoundedReader<LibInner>> d;
  Rd(const std::uint8_t* b, std::size_t n) : inner(b, n), d{inner.raw(), n} {}
  template <typename T> nop::Status<void> read(T* v) { return d.Read(v); }
  std::size_t consumed() const { return d.reader().size(); }
  nop::BoundedReader<LibInner>* raw() { return &d.reader(); }
};

// BoundedReader with a limit of n bytes over a wrapped reader that has 4 MORE bytes (the caller supplies an array of n + 4):
// the limit itself, not the end of the wrapped data, must stop the reads.
template <typename Inner> struct BndLim {};
template <typename Inner> struct Rd<BndLim<Inner>> {
  enum { has_skip = Rd<Inner>::has_skip };
  Rd<Inner> inner;
  using LibInner = std::remove_pointer_t<decltype(std::declval<Rd<Inner>>().raw())>;
  nop::Deserializer<nop::BoundedReader<LibInner>> d;
  Rd(const std::uint8_t* b, std::size_t n) : inner(b, n + 4), d{inner.raw(), n} {}
  template <typename T> nop::Status<void> read(T* v) { return d.Read(v); }
  std::size_t consumed() const { return d.reader().size(); }
  nop::BoundedReader<LibInner>* raw() { return &d.reader(); }
};

// Lifetime-tracking element type used by C11/C12/C13/C15 harnesses.
//  - TrStats::live counts constructed-minus-destroyed objects (all K together)
//  - TrStats::bad is set by: destructor on a dead object (double destroy),
//    copy/move/assign from a dead object, assignment to a dead object.
// A constructor cannot detect "constructed over an alive object"; that shows up
// as live being larger than the number of holders (checked by each harness).
#pragma once
#include <cstdint>

struct TrStats {
  static int live;
  static int ctors;
  static int dtors;
  static bool bad;
  static void reset() { live = 0; ctors = 0; dtors = 0; bad = false; }
};
int TrStats::live = 0;
int TrStats::ctors = 0;
int TrStats::dtors = 0;
bool TrStats::bad = false;

// Value-construction goes through TrInit so that a tracked element is NOT
// constructible from plain integers (a Variant's converting paths pick the first
// alternative constructible from the source, which would make harness models ambiguous).
struct TrInit { std::int32_t x; operator std::uint16_t() const { return (std::uint16_t)x; } };

template <int K>
struct Tr {
  enum : std::uint32_t { kAlive = 0xA11FE000u + K, kDead = 0xDEAD0000u + K, kMoved = 0xA11FE800u + K };
  std::uint32_t magic;
  std::int32_t v;
  bool alive() const { return magic == kAlive || magic == kMoved; }
  Tr() : magic(kAlive), v(0) { TrStats::live++; TrStats::ctors++; }
  explicit Tr(TrInit i) : magic(kAlive), v(i.x) { TrStats::live++; TrStats::ctors++; }
  Tr(const Tr& o) : magic(kAlive), v(o.v) { if (!o.alive()) TrStats::bad = true; TrStats::live++; TrStats::ctors++; }
  Tr(Tr&& o) : magic(kAlive), v(o.v) { if (!o.alive()) TrStats::bad = true; o.magic = kMoved; TrStats::live++; TrStats::ctors++; }
  Tr& operator=(const Tr& o) { if (!alive() || !o.alive()) TrStats::bad = true; v = o.v; magic = kAlive; return *this; }
  Tr& operator=(Tr&& o) { if (!alive() || !o.alive()) TrStats::bad = true; v = o.v; if (&o != this) { magic = kAlive; o.magic = kMoved; } return *this; }
  ~Tr() { if (!alive()) TrStats::bad = true; magic = kDead; TrStats::live--; TrStats::dtors++; }
  bool operator==(const Tr& o) const { return v == o.v; }
  bool operator!=(const Tr& o) const { return v != o.v; }
  bool operator<(const Tr& o) const { return v < o.v; }
  bool operator>(const Tr& o) const { return v > o.v; }
  bool operator<=(const Tr& o) const { return v <= o.v; }
  bool operator>=(const Tr& o) const { return v >= o.v; }
};

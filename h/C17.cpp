// C17: all readers and all writers implement one byte-source / byte-sink contract.
// A symbolic script of K primitive calls is applied to one library reader (writer) over N source bytes
// (capacity C) in lock step with a three-line reference model ("deliver the next bytes or fail without
// consuming"); every reader is compared with the same model, hence with each other, up to and including the
// first failing call.  Sizes for Skip/Ensure/Prepare are fully symbolic 64-bit values.
//@tu unwind=12 memunwind=40 loop:_conf=20 loop:Writer.*Skip=20 loop:ModelOStream=20
#include "io.h"
#include "pool.h"

struct Step { std::uint8_t op, width, len, val; std::uint64_t size; };
static Step draw_step() { Step s; s.op = nd8(); s.width = nd8(); s.len = nd8(); s.val = nd8(); s.size = nd64(); return s; }

template <typename Tag> struct Traits { enum { bounded = 1, buffer = 1 }; };
template <> struct Traits<SR> { enum { bounded = 0, buffer = 0 }; };
template <> struct Traits<FR> { enum { bounded = 0, buffer = 0 }; };
template <> struct Traits<BndR<SR>> { enum { bounded = 1, buffer = 0 }; };
template <> struct Traits<BndR<FR>> { enum { bounded = 1, buffer = 0 }; };
template <> struct Traits<BndLim<SR>> { enum { bounded = 1, buffer = 0 }; };

template <typename R> static nop::Status<void> skip_(R* r, std::uint64_t n, std::true_type) { return r->Skip((std::size_t)n); }
template <typename R> static nop::Status<void> skip_(R*, std::uint64_t, std::false_type) { return {}; }
template <typename R, typename T>
static nop::Status<void> read_block(R* r, T* arr, std::size_t len) { return r->Read(arr, arr + len); }

template <typename Tag, int K, int N, int EXTRA = 0>
static void reader_conf() {
  std::uint8_t raw[(N + EXTRA) ? (N + EXTRA) : 1]; for (int i = 0; i < N + EXTRA; i++) raw[i] = nd8();
  const std::uint8_t* src = (N + EXTRA) ? raw : raw + 1;
  Step st[K]; for (int k = 0; k < K; k++) st[k] = draw_step();
  const std::size_t j = nd8();
  Rd<Tag> rd(src, N); auto* r = rd.raw();
  std::size_t pos = 0;                                    // reference model: position in the source
  bool stopped = false;
  for (int k = 0; k < K && !stopped; k++) {
    const std::size_t left = (std::size_t)N - pos;
    nop::Status<void> s; bool ok = true; bool performed = true;
    switch (st[k].op % 4) {
      case 0: {                                            // single byte
        std::uint8_t b = 0xEE; s = r->Read(&b); ok = left >= 1;
        if (ok) { vassert(!!s && b == src[pos], 1); pos += 1; }
        break; }
      case 1: {                                            // block of len elements of width 1/2/4/8
        const std::size_t len = st[k].len % 3;
        std::uint8_t a1[2] = {}; std::uint16_t a2[2] = {}; std::uint32_t a4[2] = {}; std::uint64_t a8[2] = {};
        std::size_t w = 1; const void* got = a1;
        switch (st[k].width % 4) {
          case 0: w = 1; got = a1; s = read_block(r, a1, len); break;
          case 1: w = 2; got = a2; s = read_block(r, a2, len); break;
          case 2: w = 4; got = a4; s = read_block(r, a4, len); break;
          default: w = 8; got = a8; s = read_block(r, a8, len); break;
        }
        const std::size_t bytes = len * w; ok = bytes <= left;
        if (ok) {                                          // the same bytes, in the same order
          vassert(!!s, 2);
          if (j < bytes) vassert(static_cast<const std::uint8_t*>(got)[j] == src[pos + j], 3);
          pos += bytes;
        }
        break; }
      case 2:                                              // Skip(size), any 64-bit size
        if (!Rd<Tag>::has_skip) { performed = false; break; }
        s = skip_(r, st[k].size, std::integral_constant<bool, Rd<Tag>::has_skip != 0>{}); ok = st[k].size <= left;
        if (ok) { vassert(!!s, 4); pos += (std::size_t)st[k].size; }
        break;
      default:                                             // Ensure(size): on a bounded reader succeeds exactly when size bytes remain
        s = r->Ensure((std::size_t)st[k].size);
        if (Traits<Tag>::bounded) { ok = st[k].size <= left; vassert(!!s == ok, 5); if (!ok) vassert(s.error() == nop::ErrorStatus::ReadLimitReached, 6); performed = false; ok = true; }
        else { vassert(!!s, 7); performed = false; }
        break;
    }
    if (performed && !ok) {                                // the data is exhausted: every reader fails at this same call
      vassert(!s, 8);
      if (Traits<Tag>::buffer) vassert(s.error() == nop::ErrorStatus::ReadLimitReached, 9);
      stopped = true;
    }
  }
  vrt_observe(pos);
  vrt_end();
}

// ---- writers
template <typename Tag> struct WTraits { enum { checked = 1, bounded = 1 }; };
template <> struct WTraits<BW> { enum { checked = 0, bounded = 1 }; };       // bounds are enforced in Prepare() only
template <> struct WTraits<SW> { enum { checked = 1, bounded = 0 }; };
template <> struct WTraits<FW> { enum { checked = 1, bounded = 0 }; };
template <typename W> static nop::Status<void> wskip_(W* w, std::uint64_t n, std::uint8_t v, std::true_type) { return w->Skip((std::size_t)n, v); }
template <typename W> static nop::Status<void> wskip_(W*, std::uint64_t, std::uint8_t, std::false_type) { return {}; }
template <typename W, typename T>
static nop::Status<void> write_block(W* w, const T* arr, std::size_t len) { return w->Write(arr, arr + len); }

template <typename Tag, int K, int N>
static void writer_conf() {
  Step st[K]; for (int k = 0; k < K; k++) st[k] = draw_step();
  const std::uint64_t e0 = nd64(), e1 = nd64(); const std::uint8_t cdraw = nd8(); const std::size_t j = nd8();
  const std::size_t cap = WTraits<Tag>::bounded ? (std::size_t)cdraw : (std::size_t)N;   // unbounded sinks get the whole array
  vassume(cap <= N);
  std::uint8_t buf[N + 1];
  for (int i = 0; i <= N; i++) buf[i] = 0xA5;
  std::uint8_t ej = 0xA5;                                  // expected byte at the ONE symbolic index j (the solver quantifies over j)
  Wr<Tag> wr(buf, cap); auto* w = wr.raw();
  std::size_t pos = 0; bool stopped = false;
  for (int k = 0; k < K && !stopped; k++) {
    const std::size_t left = cap - pos;
    nop::Status<void> s; bool ok = true; bool performed = true;
    switch (st[k].op % 4) {
      case 0:                                              // Prepare(size)
        s = w->Prepare((std::size_t)st[k].size);
        if (WTraits<Tag>::bounded) { vassert(!!s == (st[k].size <= left), 1); if (!s) vassert(s.error() == nop::ErrorStatus::WriteLimitReached, 2); }
        else vassert(!!s, 3);
        performed = false; break;
      case 1:                                              // single byte
        ok = left >= 1;
        if (!ok && (!WTraits<Tag>::checked || !WTraits<Tag>::bounded)) { performed = false; break; }   // unchecked / unbounded sink: the caller must stay within Prepare()'d room
        s = w->Write(st[k].val);
        if (ok) { vassert(!!s, 4); if (j == pos) ej = st[k].val; pos++; }
        break;
      case 2: {                                            // block
        const std::size_t len = st[k].len % 3;
        const std::uint8_t a1[2] = {(std::uint8_t)e0, (std::uint8_t)e1}; const std::uint16_t a2[2] = {(std::uint16_t)e0, (std::uint16_t)e1};
        const std::uint32_t a4[2] = {(std::uint32_t)e0, (std::uint32_t)e1}; const std::uint64_t a8[2] = {e0, e1};
        const std::size_t w_ = (std::size_t)1 << (st[k].width % 4); const std::size_t bytes = len * w_;
        ok = bytes <= left;
        if (!ok && (!WTraits<Tag>::checked || !WTraits<Tag>::bounded)) { performed = false; break; }
        switch (st[k].width % 4) {
          case 0: s = write_block(w, a1, len); break;
          case 1: s = write_block(w, a2, len); break;
          case 2: s = write_block(w, a4, len); break;
          default: s = write_block(w, a8, len); break;
        }
        if (ok) {
          vassert(!!s, 5);
          if (j >= pos && j < pos + bytes) { const std::size_t off = j - pos; const std::uint64_t v = (off / w_) == 0 ? e0 : e1; ej = (std::uint8_t)(v >> (8 * (off % w_))); }   // little-endian, byte by byte
          pos += bytes;
        }
        break; }
      default:                                             // Skip(size, value)
        if (!Wr<Tag>::has_skip) { performed = false; break; }
        ok = st[k].size <= left;
        if (!ok && (!WTraits<Tag>::checked || !WTraits<Tag>::bounded)) { performed = false; break; }
        s = wskip_(w, st[k].size, st[k].val, std::integral_constant<bool, Wr<Tag>::has_skip != 0>{});
        if (ok) { vassert(!!s, 6); if (j >= pos && j < pos + (std::size_t)st[k].size) ej = st[k].val; pos += (std::size_t)st[k].size; }
        break;
    }
    if (performed && !ok) { vassert(!s, 7); if (WTraits<Tag>::bounded) vassert(s.error() == nop::ErrorStatus::WriteLimitReached, 8); stopped = true; }
  }
  wr.sync();                                               // (native real-stream build: copy the stream contents into buf)
  vassert(wr.produced() == pos, 9);                        // same byte count ...
  if (j <= (std::size_t)N) vassert(buf[j] == ej, 10);     // ... same bytes, and nothing written behind them (canary)
  vrt_observe(pos);
  vrt_end();
}

using BndPBR = BndR<PBR>; using BndBR = BndR<BR>; using BndSR = BndR<SR>; using BndFR = BndR<FR>;
using BndPBW = BndW<PBW>; using BndBW = BndW<BW>; using BndCBW = BndW<CBW>; using BndSW = BndW<SW>;
#define RC(tier, Tag, K, N) extern "C" void tier##_reader_conf_##Tag##_k##K##_n##N(void) { reader_conf<Tag, K, N>(); }
RC(hq, PBR, 2, 6) RC(hq, BR, 2, 6) RC(hq, SR, 2, 6) RC(hq, FR, 2, 6) RC(hq, BndPBR, 2, 6) RC(hq, BndBR, 2, 6) RC(hq, BndSR, 2, 6) RC(hq, BndFR, 2, 6)
RC(hq, PBR, 3, 3) RC(hq, BR, 3, 3) RC(hq, SR, 3, 3) RC(hq, FR, 3, 3) RC(hq, BndSR, 3, 3) RC(hq, PBR, 1, 0) RC(hq, BR, 1, 0) RC(hq, SR, 1, 0)
RC(ht, PBR, 3, 10) RC(ht, BR, 3, 10) RC(ht, SR, 3, 10) RC(ht, FR, 3, 10) RC(ht, BndPBR, 3, 10) RC(ht, BndBR, 3, 10) RC(ht, BndSR, 3, 10) RC(ht, BndFR, 3, 10)
RC(ht, PBR, 4, 6) RC(ht, BR, 4, 6) RC(ht, SR, 4, 6) RC(ht, FR, 4, 6)
using LimPBR = BndLim<PBR>; using LimBR = BndLim<BR>; using LimSR = BndLim<SR>;
#define RL(tier, Tag, K, N) extern "C" void tier##_reader_conf_##Tag##_k##K##_n##N(void) { reader_conf<Tag, K, N, 4>(); }
RL(hq, LimPBR, 2, 5) RL(hq, LimBR, 2, 5) RL(hq, LimSR, 2, 5) RL(hq, LimPBR, 1, 3) RL(ht, LimPBR, 3, 6) RL(ht, LimBR, 3, 6)
#define WC(tier, Tag, K, N) extern "C" void tier##_writer_conf_##Tag##_k##K##_n##N(void) { writer_conf<Tag, K, N>(); }
WC(hq, PBW, 2, 8) WC(hq, BW, 2, 8) WC(hq, CBW, 2, 8) WC(hq, SW, 2, 8) WC(hq, FW, 2, 8) WC(hq, BndPBW, 2, 8) WC(hq, BndBW, 2, 8) WC(hq, BndCBW, 2, 8) WC(hq, BndSW, 2, 8)
WC(hq, PBW, 3, 4) WC(hq, CBW, 3, 4) WC(hq, BW, 3, 4) WC(hq, CBW, 1, 16) WC(hq, BW, 1, 16)
WC(ht, PBW, 3, 16) WC(ht, BW, 3, 16) WC(ht, CBW, 3, 16) WC(ht, SW, 3, 16) WC(ht, FW, 3, 8) WC(ht, BndPBW, 3, 16) WC(ht, BndBW, 3, 16) WC(ht, BndCBW, 3, 16) WC(ht, BndSW, 3, 8)
WC(ht, PBW, 4, 8) WC(ht, CBW, 4, 8)

// Element type whose constructors / assignments throw at a symbolically chosen point (C12 / C13 "element
// constructors that throw").  Bomb::fuse counts down constructor/assignment calls; the call that brings it to zero
// throws (after the tracked member was constructed, so the unwinding destroys it again).  Only catch (...) is used.
#pragma once
#include "tr.h"
#include <utility>
struct Bomb {
  static int fuse;
  static void tick() { if (fuse > 0 && --fuse == 0) throw 7; }
  Tr<2> t;
  Bomb() : t() { tick(); }
  explicit Bomb(TrInit i) : t(i) { tick(); }
  Bomb(const Bomb& o) : t(o.t) { tick(); }
  Bomb(Bomb&& o) : t(std::move(o.t)) { tick(); }
  Bomb& operator=(const Bomb& o) { t = o.t; tick(); return *this; }
  Bomb& operator=(Bomb&& o) { t = std::move(o.t); tick(); return *this; }
  ~Bomb() {}
};
int Bomb::fuse = 0;

// C05 (table part): the cut falls inside an entry that the reading definition skips (unknown or deleted id) or
// inside table-entry padding.
//@tu unwind=12 memunwind=60 loop:ReadEntries=4 loop:skip_harness=30
#include "rd.h"
struct TW { nop::Entry<u32, 1> a; nop::Entry<u16, 2> b; NOP_TABLE_HASH(0x7b, TW, a, b); };                       // the writing definition
struct TWlack { nop::Entry<u16, 2> b; NOP_TABLE_HASH(0x7b, TWlack, b); };                                  // does not know id 1
struct TWdel { nop::Entry<u32, 1, nop::DeletedEntry> a; nop::Entry<u16, 2> b; NOP_TABLE_HASH(0x7b, TWdel, a, b); };   // id 1 deleted
struct TWlast { nop::Entry<u32, 1> a; NOP_TABLE_HASH(0x7b, TWlast, a); };                                 // does not know id 2 (the LAST entry on the wire)

template <typename RT, typename R, int PAD>
static void trunc_skip_harness() {
  const u32 va = nd32(); const u16 vb = nd16();
  const std::uint8_t kdraw = nd8(), padv = nd8();
  std::uint8_t junk[24]; for (std::size_t i = 0; i < sizeof junk; i++) junk[i] = nd8();
  // hand-laid-out encoding of TW{a=va, b=vb} with PAD padding bytes behind each entry value
  std::uint8_t enc[24] = {}; Out o(enc, sizeof enc);
  o.put(0xb5); ref_enc_uint(o, 0x7b); ref_enc_uint(o, 2);
  { Out t(nullptr, 0); Meta<u32>::enc(va, t); ref_enc_uint(o, 1); ref_enc_uint(o, t.n + PAD); Meta<u32>::enc(va, o); for (int i = 0; i < PAD; i++) o.put(padv); }
  { Out t(nullptr, 0); Meta<u16>::enc(vb, t); ref_enc_uint(o, 2); ref_enc_uint(o, t.n + PAD); Meta<u16>::enc(vb, o); for (int i = 0; i < PAD; i++) o.put(padv); }
  vassume(o.fits());
  const std::size_t k = kdraw; vassume(k < o.n);
  for (std::size_t i = 0; i < sizeof enc; i++) if (i >= k) enc[i] = junk[i];
  RT out; Rd<R> r(enc, k);
  auto st = r.read(&out);
  vassert(!st, 2);
  vrt_end();
}
// the untruncated message is a valid encoding for every reading definition
template <typename RT, int PAD>
static void full_harness() {
  const u32 va = nd32(); const u16 vb = nd16(); const std::uint8_t padv = nd8();
  std::uint8_t enc[24] = {}; Out o(enc, sizeof enc);
  o.put(0xb5); ref_enc_uint(o, 0x7b); ref_enc_uint(o, 2);
  { Out t(nullptr, 0); Meta<u32>::enc(va, t); ref_enc_uint(o, 1); ref_enc_uint(o, t.n + PAD); Meta<u32>::enc(va, o); for (int i = 0; i < PAD; i++) o.put(padv); }
  { Out t(nullptr, 0); Meta<u16>::enc(vb, t); ref_enc_uint(o, 2); ref_enc_uint(o, t.n + PAD); Meta<u16>::enc(vb, o); for (int i = 0; i < PAD; i++) o.put(padv); }
  vassume(o.fits());
  RT full; Rd<PBR> rf(enc, o.n); auto sf = rf.read(&full);
  vassert(!!sf && rf.consumed() == o.n, 1);
  vrt_end();
}
using BndPBR = BndR<PBR>; using BndBR = BndR<BR>; using BndSR = BndR<SR>;
#define TS(tier, RT, R, PAD) extern "C" void tier##_trunc_skip_##RT##__##R##_pad##PAD(void) { trunc_skip_harness<RT, R, PAD>(); }
TS(hq, TWlack, PBR, 0) TS(hq, TWlack, SR, 2) TS(hq, TWdel, BR, 2) TS(hq, TWdel, SR, 0) TS(hq, TWlast, SR, 0) TS(hq, TWlast, BndPBR, 2) TS(hq, TW, SR, 2) TS(hq, TW, BR, 2)
TS(ht, TWlack, BR, 2) TS(ht, TWlack, BndSR, 0) TS(ht, TWdel, PBR, 2) TS(ht, TWdel, BndBR, 0) TS(ht, TWlast, PBR, 2) TS(ht, TWlast, BR, 0) TS(ht, TW, PBR, 2) TS(ht, TW, BndSR, 2) TS(ht, TWlast, SR, 2)
#define FS(tier, RT, PAD) extern "C" void tier##_full_##RT##_pad##PAD(void) { full_harness<RT, PAD>(); }
FS(hq, TWlack, 2) FS(hq, TWdel, 0) FS(hq, TWlast, 2) FS(hq, TW, 2)

// C10 (types that call Ensure): a table entry holding a std::vector<u8> / std::string is read through the internal
// BoundedReader, which forwards Ensure(); the fault may land on that Ensure call.  Inlined lowering, arena.
//@tu inline=1 unwind=10 memunwind=40 arena=512 mem=20 loop:ReadEntries=2 timeout=600
#include "fault.h"
#include <string>
#include <vector>
#include <nop/base/string.h>
#include <nop/base/vector.h>
template class std::basic_string<char>;
struct TSh { nop::Entry<std::string, 2> s; NOP_TABLE_HASH(0x11, TSh, s); };
extern "C" void hq_rfault_table_heap(void) {
  const u8 c = nd8(); const std::uint8_t kd = nd8(); const nop::ErrorStatus e = draw_error();
  // table { 2: STR "c" } laid out by hand
  std::uint8_t enc[12] = {}; Out o(enc, sizeof enc);
  o.put(0xb5); ref_enc_uint(o, 0x11); ref_enc_uint(o, 1);
  ref_enc_uint(o, 2); ref_enc_uint(o, 3); o.put(0xbd); o.put(1); o.put(c);
  Fault f; f.fail_at = kd; f.err = e;
  FaultyReader r{&f, enc, o.n};
  nop::Deserializer<FaultyReader*> d{&r};
  TSh out; auto st = d.Read(&out);
  if (f.failed) {
    vassert(!st, 1);
    vassert(!st && st.error() == e, 2);                 // verbatim, also when the failing call is Ensure
    vassert(f.calls_after_fail == 0 && f.calls == (int)kd + 1, 3);
  } else {
    vassert(!!st && !out.s.empty() && out.s.get().size() == 1 && out.s.get()[0] == (char)c, 6);
  }
  vrt_end();
}

// C03: encoder emits exactly the documented wire format (vs independent reference encoder in meta.h).
//@tu unwind=10 memunwind=60 loop:LogicalBuffer=6
//@h LB5 : unwind=40 memunwind=300
//@h LB6 : unwind=140 memunwind=170
#include "ser.h"
#include "gen/C03.inc"

// C14: RPC dispatch calls exactly the selected handler with the sent arguments.
//  A  end to end: Method::Invoke through SimpleMethodSender -> loop-back transport -> InterfaceBindings
//     dispatcher -> SimpleMethodReceiver -> handler -> reply -> Invoke's return value.
//  A2 two requests back to back on one connection: each dispatch consumes exactly its own request and
//     produces exactly one reply.
//  B  arbitrary request bytes (length enumerated) against a reference model built from Meta<> decoders.
//@tu unwind=12 memunwind=60 loop:ReadEntries=3
//@h _n(\d+)$ : unwind=16
//@h frame_ : timeout=900
//@h _n1[6-9]$ : unwind=22
#include "io.h"
#include "pool.h"
#include <nop/rpc/interface.h>
#include <nop/rpc/simple_method_receiver.h>
#include <nop/rpc/simple_method_sender.h>

using VarArg = nop::Variant<u8, i16>;
using ResRet = nop::Result<Err, u16>;
using Arr3 = std::array<u8, 3>;

struct IA : nop::Interface<IA> {
  NOP_INTERFACE("io.github.eieio.verif.IA");
  NOP_METHOD(Add, i32(i32, i32));
  NOP_METHOD(Scale, S0(const S0&, u8));
  NOP_METHOD(Pick, ResRet(const VarArg&));
  NOP_METHOD(Rev, Arr3(const Arr3&));
  NOP_INTERFACE_API(Add, Scale, Pick, Rev);
};
struct IB : nop::Interface<IB> {                        // 32-bit selectors, zero-argument method
  NOP_INTERFACE32("B");
  NOP_METHOD(Neg, i32(i32));
  NOP_METHOD(Zero, i32());
  NOP_INTERFACE_API(Neg, Zero);
};

// ---- handlers log what they were called with
struct CallLog { int count = 0; int which = -1; i32 a = 0, b = 0; S0 s{}; u8 k = 0; VarArg v; Arr3 arr{}; int pass = 0; };
static CallLog g_log;
static i32 h_add(i32 a, i32 b) { g_log.count++; g_log.which = 0; g_log.a = a; g_log.b = b; return (i32)((u32)a + (u32)b); }
static ResRet pick_fn(const VarArg& v) {
  if (v.is<u8>()) return (u16)(*v.get<u8>() + 1);
  if (v.is<i16>()) return *v.get<i16>() < 0 ? ResRet{Err::B} : ResRet{(u16)*v.get<i16>()};
  return ResRet{Err::A};
}
static Arr3 rev_fn(const Arr3& a) { return Arr3{{a[2], a[1], a[0]}}; }
struct Impl {
  int tag;
  i32 OnAdd(i32 a, i32 b) { g_log.pass = tag; return h_add(a, b); }
  S0 OnScale(const S0& s, u8 k) { g_log.count++; g_log.which = 1; g_log.s = s; g_log.k = k; g_log.pass = tag; return S0{s.a + k, (i16)(s.b ^ k)}; }
  ResRet OnPick(const VarArg& v) const { g_log.count++; g_log.which = 2; g_log.v = v; g_log.pass = tag; return pick_fn(v); }
  Arr3 OnRev(const Arr3& a) { g_log.count++; g_log.which = 3; g_log.arr = a; g_log.pass = tag; return rev_fn(a); }
};
// All four methods bound to handlers of one implementation object.  (Binding C++ member functions directly --
// IA::X::Bind(&Impl::OnX) with the instance as passthrough argument -- lowers to Itanium pointer-to-member calls,
// i.e. integer-to-function-pointer casts that CBMC cannot resolve: outside the encodable code.  The handlers below
// forward to the same member functions through an explicit instance.)
static Impl g_impl{41};
static auto make_bindings_full() {
  return nop::BindInterface(
      IA::Add::Bind([](i32 a, i32 b) { return g_impl.OnAdd(a, b); }),
      IA::Scale::Bind([](const S0& s, u8 k) { return g_impl.OnScale(s, k); }),
      IA::Pick::Bind([](const VarArg& v) { return g_impl.OnPick(v); }),
      IA::Rev::Bind([](const Arr3& a) { return g_impl.OnRev(a); }));
}
// lambda bindings, partial: Scale and Rev are not bound
static auto make_bindings_partial() {
  return nop::BindInterface(
      IA::Pick::Bind([](const VarArg& v) { g_log.count++; g_log.which = 2; g_log.v = v; return pick_fn(v); }),
      IA::Add::Bind([](i32 a, i32 b) { return h_add(a, b); }));
}
static i32 neg_fn(i32 a) { g_log.count++; g_log.which = 10; g_log.a = a; return (i32)(0u - (u32)a); }
static i32 zero_fn() { g_log.count++; g_log.which = 11; return 77; }
static auto make_bindings_b() { return nop::BindInterface(IB::Neg::Bind(&neg_fn), IB::Zero::Bind(&zero_fn)); }   // free functions, no passthrough

// ---- loop-back transport
struct Wire {
  std::uint8_t req[48]; std::size_t req_len = 0, req_used = 0;
  std::uint8_t rep[24]; std::size_t rep_len = 0;
  nop::Status<void> status; int serves = 0;
};
template <typename Bindings, typename... Pass>
static void serve(Wire* w, const Bindings& bindings, Pass... pass) {
  nop::Deserializer<nop::PedanticBufferReader> d{w->req + w->req_used, w->req_len - w->req_used};
  nop::Serializer<nop::PedanticBufferWriter> s{w->rep + w->rep_len, sizeof(w->rep) - w->rep_len};
  auto receiver = nop::MakeSimpleMethodReceiver(&s, &d);
  w->status = bindings(&receiver, std::forward<Pass>(pass)...);
  w->req_used += d.reader().capacity() - d.reader().remaining();
  w->rep_len += s.writer().size();
  w->serves++;
}
struct ClientSer {
  Wire* w;
  template <typename T> nop::Status<void> Write(const T& v) {
    nop::Serializer<nop::PedanticBufferWriter> s{w->req + w->req_len, sizeof(w->req) - w->req_len};
    auto st = s.Write(v); if (st) w->req_len += s.writer().size(); return st;
  }
};
template <typename Serve>
struct ClientDeser {
  Wire* w; Serve serve_fn; std::size_t rep_used = 0; bool served = false;
  template <typename T> nop::Status<void> Read(T* v) {
    if (!served) { served = true; serve_fn(); }                                  // the reply is produced when the client starts waiting for it
    nop::Deserializer<nop::PedanticBufferReader> d{w->rep + rep_used, w->rep_len - rep_used};
    auto st = d.Read(v); rep_used += d.reader().capacity() - d.reader().remaining(); return st;
  }
};

static void draw_var(VarArg* v) { Meta<VarArg>::draw(v); }

template <int METHOD, bool PARTIAL>
static void invoke_harness() {
  const i32 a = (i32)nd32(), b = (i32)nd32(); S0 s; Meta<S0>::draw(&s); const u8 k = nd8(); VarArg v; draw_var(&v); Arr3 arr; Meta<Arr3>::draw(&arr);
  g_log = CallLog{};
  Wire w;
  auto full = make_bindings_full(); auto part = make_bindings_partial();
  ClientSer cs{&w};
  auto fn = [&]() { if (PARTIAL) serve(&w, part); else serve(&w, full); };
  ClientDeser<decltype(fn)> cd{&w, fn};
  auto sender = nop::MakeSimpleMethodSender(&cs, &cd);
  const bool bound = !PARTIAL || METHOD == 0 || METHOD == 2;
  bool ok = false, value_ok = false; nop::ErrorStatus err = nop::ErrorStatus::None;
  switch (METHOD) {
    case 0: { auto r = IA::Add::Invoke(&sender, a, b); ok = !!r; err = r.error(); value_ok = ok && r.get() == (i32)((u32)a + (u32)b); break; }
    case 1: { auto r = IA::Scale::Invoke(&sender, s, k); ok = !!r; err = r.error(); value_ok = ok && r.get().a == s.a + k && r.get().b == (i16)(s.b ^ k); break; }
    case 2: { auto r = IA::Pick::Invoke(&sender, v); ok = !!r; err = r.error(); value_ok = ok && Meta<ResRet>::eq(r.get(), pick_fn(v)); break; }
    default: { auto r = IA::Rev::Invoke(&sender, arr); ok = !!r; err = r.error(); value_ok = ok && r.get() == rev_fn(arr); break; }
  }
  vassert(w.serves == 1, 1);
  if (bound) {
    vassert(w.req_used == w.req_len, 2);                     // a successful call consumes exactly its own request
    vassert(!!w.status, 3);
    vassert(g_log.count == 1 && g_log.which == METHOD, 4);   // exactly the selected handler, exactly once
    if (METHOD == 0) vassert(g_log.a == a && g_log.b == b, 5);
    if (METHOD == 1) vassert(g_log.s.a == s.a && g_log.s.b == s.b && g_log.k == k, 6);
    if (!PARTIAL) vassert(g_log.pass == 41, 14);              // the passthrough instance reached the handler
    if (METHOD == 2) vassert(Meta<VarArg>::eq(g_log.v, v), 7);
    if (METHOD == 3) vassert(g_log.arr == arr, 8);
    vassert(ok && value_ok, 9);                              // Invoke returns the handler's value
    vassert(cd.rep_used == w.rep_len && w.rep_len > 0, 10);  // exactly one reply
  } else {
    vassert(!w.status && w.status.error() == nop::ErrorStatus::InvalidInterfaceMethod, 11);
    vassert(g_log.count == 0 && w.rep_len == 0, 12);         // no handler runs, nothing is sent back
    vassert(!ok, 13);
  }
  vrt_end();
}

// A2: two requests back to back (the second one on the 32-bit interface would be another connection; both here are IA)
template <int M1, int M2>
static void frame_harness() {
  const i32 a = (i32)nd32(), b = (i32)nd32(); Arr3 arr; Meta<Arr3>::draw(&arr); VarArg v; draw_var(&v);
  g_log = CallLog{};
  Wire w; ClientSer cs{&w};
  auto full = make_bindings_full();
  auto put = [&](int m) {
    if (m == 0) { cs.Write((std::uint64_t)IA::Add::Selector); cs.Write(std::make_tuple(a, b)); }
    else if (m == 2) { cs.Write((std::uint64_t)IA::Pick::Selector); cs.Write(std::make_tuple(v)); }
    else { cs.Write((std::uint64_t)IA::Rev::Selector); cs.Write(std::make_tuple(arr)); }
  };
  put(M1); const std::size_t len1 = w.req_len; put(M2);
  serve(&w, full);
  vassert(!!w.status && w.req_used == len1 && g_log.count == 1 && g_log.which == M1, 1);   // consumed exactly its own request
  const std::size_t rep1 = w.rep_len; vassert(rep1 > 0, 2);
  serve(&w, full);
  vassert(!!w.status && w.req_used == w.req_len && g_log.count == 2 && g_log.which == M2, 3);
  vassert(w.rep_len > rep1, 4);
  // both replies decode in order
  nop::Deserializer<nop::PedanticBufferReader> d{w.rep, w.rep_len};
  auto chk = [&](int m, int id) {
    if (m == 0) { i32 r = 0; auto st = d.Read(&r); vassert(!!st && r == (i32)((u32)a + (u32)b), id); }
    else if (m == 2) { ResRet r; auto st = d.Read(&r); vassert(!!st && Meta<ResRet>::eq(r, pick_fn(v)), id); }
    else { Arr3 r{}; auto st = d.Read(&r); vassert(!!st && r == rev_fn(arr), id); }
  };
  chk(M1, 5); chk(M2, 6);
  vassert(d.reader().remaining() == 0, 7);
  vrt_end();
}

// 32-bit selector interface incl. the zero-argument method, end to end
template <int METHOD>
static void invoke_b_harness() {
  const i32 a = (i32)nd32();
  g_log = CallLog{};
  Wire w; auto bnd = make_bindings_b(); ClientSer cs{&w};
  auto fn = [&]() { serve(&w, bnd); };
  ClientDeser<decltype(fn)> cd{&w, fn};
  auto sender = nop::MakeSimpleMethodSender(&cs, &cd);
  if (METHOD == 0) { auto r = IB::Neg::Invoke(&sender, a); vassert(!!r && r.get() == (i32)(0u - (u32)a), 1); vassert(g_log.count == 1 && g_log.which == 10 && g_log.a == a, 2); }
  else { auto r = IB::Zero::Invoke(&sender); vassert(!!r && r.get() == 77, 3); vassert(g_log.count == 1 && g_log.which == 11, 4); }
  vassert(w.serves == 1 && !!w.status && w.req_used == w.req_len && cd.rep_used == w.rep_len, 5);
  vrt_end();
}

// B: arbitrary request bytes against the reference model
template <int N>
static void request_harness() {
  Wire w; for (int i = 0; i < N; i++) w.req[i] = nd8(); w.req_len = N;
  g_log = CallLog{};
  auto part = make_bindings_partial();                         // Add and Pick bound; Scale, Rev and everything else unbound
  serve(&w, part);
  // reference: selector = unsigned integer of at most 8 bytes, then the argument tuple
  In in(w.req, N); std::uint64_t sel = 0;
  const bool sel_ok = ref_dec_uint(in, 8, &sel);
  if (!sel_ok) {
    vassert(!w.status && g_log.count == 0 && w.rep_len == 0, 1);
  } else if (sel == (std::uint64_t)IA::Add::Selector) {
    std::tuple<i32, i32> args; const bool ok = Meta<std::tuple<i32, i32>>::dec(in, &args);
    if (!ok) vassert(!w.status && g_log.count == 0 && w.rep_len == 0, 2);      // undecodable arguments: that error, no handler, no reply
    else {
      vassert(!!w.status && g_log.count == 1 && g_log.which == 0 && g_log.a == std::get<0>(args) && g_log.b == std::get<1>(args), 3);
      vassert(w.req_used == in.pos, 4);
      std::uint8_t exp[8]; Out o(exp, sizeof exp); Meta<i32>::enc((i32)((u32)std::get<0>(args) + (u32)std::get<1>(args)), o);
      vassert(w.rep_len == o.n, 5);
      const std::size_t j = nd8(); if (j < o.n) vassert(w.rep[j] == exp[j], 6);
    }
  } else if (sel == (std::uint64_t)IA::Pick::Selector) {
    std::tuple<VarArg> args; const bool ok = Meta<std::tuple<VarArg>>::dec(in, &args);
    if (!ok) vassert(!w.status && g_log.count == 0 && w.rep_len == 0, 7);
    else { vassert(!!w.status && g_log.count == 1 && g_log.which == 2 && Meta<VarArg>::eq(g_log.v, std::get<0>(args)), 8); vassert(w.req_used == in.pos && w.rep_len > 0, 9); }
  } else {
    vassert(!w.status && w.status.error() == nop::ErrorStatus::InvalidInterfaceMethod, 10);
    vassert(g_log.count == 0 && w.rep_len == 0, 11);
  }
  vrt_end();
}
// B on the 32-bit interface: selectors wider than 32 bits must be rejected, not truncated
template <int N>
static void request_b_harness() {
  Wire w; for (int i = 0; i < N; i++) w.req[i] = nd8(); w.req_len = N;
  g_log = CallLog{};
  auto bnd = make_bindings_b();
  serve(&w, bnd);
  In in(w.req, N); std::uint64_t sel = 0;
  const bool sel_ok = ref_dec_uint(in, 4, &sel);               // a 32-bit selector accepts POS, U8, U16, U32 only
  if (!sel_ok) vassert(!w.status && g_log.count == 0 && w.rep_len == 0, 1);
  else if (sel == (std::uint64_t)IB::Neg::Selector) {
    std::tuple<i32> args; const bool ok = Meta<std::tuple<i32>>::dec(in, &args);
    if (!ok) vassert(!w.status && g_log.count == 0 && w.rep_len == 0, 2);
    else vassert(!!w.status && g_log.count == 1 && g_log.which == 10 && g_log.a == std::get<0>(args) && w.req_used == in.pos, 3);
  } else if (sel == (std::uint64_t)IB::Zero::Selector) {
    std::tuple<> args; const bool ok = Meta<std::tuple<>>::dec(in, &args);
    if (!ok) vassert(!w.status && g_log.count == 0 && w.rep_len == 0, 4);    // the empty argument tuple is part of the frame
    else vassert(!!w.status && g_log.count == 1 && g_log.which == 11 && w.req_used == in.pos, 5);
  } else {
    vassert(!w.status && w.status.error() == nop::ErrorStatus::InvalidInterfaceMethod && g_log.count == 0 && w.rep_len == 0, 6);
  }
  vrt_end();
}

#define IH(tier, M, P) extern "C" void tier##_invoke_m##M##_partial##P(void) { invoke_harness<M, P>(); }
IH(hq, 0, 0) IH(hq, 1, 0) IH(hq, 2, 0) IH(hq, 3, 0) IH(hq, 0, 1) IH(hq, 1, 1) IH(hq, 2, 1) IH(hq, 3, 1)
#define FR_(tier, A, B) extern "C" void tier##_frame_##A##_##B(void) { frame_harness<A, B>(); }
FR_(hq, 0, 3) FR_(ht, 2, 0) FR_(ht, 3, 2) FR_(ht, 0, 0)
extern "C" void hq_invoke_b_neg(void) { invoke_b_harness<0>(); }
extern "C" void hq_invoke_b_zero(void) { invoke_b_harness<1>(); }
#define RQ(tier, N) extern "C" void tier##_request_n##N(void) { request_harness<N>(); }
RQ(hq, 0) RQ(hq, 5) RQ(hq, 9) RQ(hq, 12) RQ(hq, 14) RQ(ht, 10) RQ(ht, 11) RQ(ht, 13) RQ(ht, 16) RQ(ht, 19)
#define RB(tier, N) extern "C" void tier##_request_b_n##N(void) { request_b_harness<N>(); }
RB(hq, 1) RB(hq, 5) RB(hq, 7) RB(hq, 9) RB(hq, 11) RB(ht, 6) RB(ht, 8) RB(ht, 12) RB(ht, 13)

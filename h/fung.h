// C09 support: extra fungible type families and the wire-compatibility harness.
#pragma once
#include "io.h"
#include "pool.h"
#include "evo.h"
#include <nop/serializer.h>
#include <nop/traits/is_fungible.h>

struct WW32 { W32 v; NOP_VALUE(WW32, v); };
template <> struct Meta<WW32> : MetaValue<WW32, F<WW32, W32, &WW32::v>> {};
struct S2b { S0b s; std::tuple<u8, i16> p; NOP_STRUCTURE(S2b, s, p); };
template <> struct Meta<S2b> : MetaStruct<S2b, F<S2b, S0b, &S2b::s>, F<S2b, std::tuple<u8, i16>, &S2b::p>> {};
struct LBV2 { std::array<u16, 3> d; u32 n; NOP_VALUE(LBV2, (d, n)); };
template <> struct Meta<LBV2> : MetaValue<LBV2, LB<LBV2, std::array<u16, 3>, u16, 3, u32, &LBV2::d, &LBV2::n>> {};
struct LBV5 { u16 d[5]; u8 n; NOP_VALUE(LBV5, (d, n)); };
using U16x5 = u16[5];
template <> struct Meta<LBV5> : MetaValue<LBV5, LB<LBV5, U16x5, u16, 5, u8, &LBV5::d, &LBV5::n>> {};
struct LBW { W8 d[3]; u8 n; NOP_VALUE(LBW, (d, n)); };
using W8x3 = W8[3];
template <> struct Meta<LBW> : MetaValue<LBW, LB<LBW, W8x3, W8, 3, u8, &LBW::d, &LBW::n>> {};
struct T1b { nop::Entry<W32, 1> a; nop::Entry<S0b, 2> b; NOP_TABLE_HASH(0x7b, T1b, a, b); };
template <> struct Meta<T1b> : MetaTable<T1b, 0x7b, E<T1b, W32, 1, nop::Entry<W32, 1>, &T1b::a>, E<T1b, S0b, 2, nop::Entry<S0b, 2>, &T1b::b>> {};
struct T1c { nop::Entry<u32, 1> a; nop::Entry<S0, 2> b; NOP_TABLE_HASH(0x7c, T1c, a, b); };       // other hash
template <> struct Meta<T1c> : MetaTable<T1c, 0x7c, E<T1c, u32, 1, nop::Entry<u32, 1>, &T1c::a>, E<T1c, S0, 2, nop::Entry<S0, 2>, &T1c::b>> {};
struct T1d { nop::Entry<u32, 1> a; nop::Entry<S0, 2, nop::DeletedEntry> b; NOP_TABLE_HASH(0x7b, T1d, a, b); };   // entry 2 deleted
template <> struct Meta<T1d> : MetaTable<T1d, 0x7b, E<T1d, u32, 1, nop::Entry<u32, 1>, &T1d::a>, DEL<T1d, 2>> {};

// A -> bytes (library) -> B (library) must succeed whenever IsFungible<A,B>; writing that B must reproduce the
// same bytes (the encoding is injective on values, so byte equality = "corresponding value").
// "Element counts fit B's capacity" is implied here: every fungible pair in this pool has equal capacities.
template <typename A, typename B>
static void fung_wire(std::true_type) {
  A a; Meta<A>::draw(&a);
  const std::size_t j = nd8();
  std::uint8_t b1[40] = {}, b2[40] = {};
  Wr<PBW> w1(b1, sizeof b1);
  auto s1 = w1.write(a);
  vassert(!!s1, 1);
  const std::size_t n = w1.produced();
  B b; Meta<B>::draw(&b);
  Rd<PBR> r(b1, n);
  auto s2 = r.read(&b);
  vassert(!!s2, 2);                               // every encoding of an A value decodes as B
  vassert(r.consumed() == n, 3);
  Wr<PBW> w2(b2, sizeof b2);
  auto s3 = w2.write(b);
  vassert(!!s3 && w2.produced() == n, 4);         // re-encoding reproduces the same bytes
  if (j < n && j < sizeof b1) vassert(b1[j] == b2[j], 5);
  vrt_observe(1);
  vrt_end();
}
template <typename A, typename B>
static void fung_wire(std::false_type) { vrt_observe(0); vrt_end(); }
template <typename A, typename B>
static void fung_harness() { fung_wire<A, B>(std::integral_constant<bool, nop::IsFungible<A, B>::value>{}); }

// C10 support: fault-injecting reader / writer implementing the documented Reader / Writer interface over a
// byte array.  The k-th primitive call (k symbolic) returns the symbolic error e != None; every call is counted.
#pragma once
#include "io.h"
#include "pool.h"
#include <nop/base/handle.h>
#include <nop/serializer.h>
#include <nop/types/handle.h>

struct Fault {
  int calls = 0; int fail_at = -1; nop::ErrorStatus err = nop::ErrorStatus::IOError;
  bool failed = false; int calls_after_fail = 0;
  bool tick() {
    if (failed) calls_after_fail++;
    const int k = calls++;
    if (!failed && k == fail_at) { failed = true; return true; }
    return false;
  }
};
using IntHandle = nop::Handle<nop::DefaultHandlePolicy<int, -1>>;

struct FaultyWriter {
  Fault* f; std::uint8_t* buf; std::size_t cap; std::size_t n = 0; int pushed = 0;
  nop::Status<void> Prepare(std::size_t) { if (f->tick()) return f->err; return {}; }
  nop::Status<void> Write(std::uint8_t b) { if (f->tick()) return f->err; if (n < cap) buf[n] = b; n++; return {}; }
  template <typename T, typename Enable = nop::EnableIfArithmetic<T>>
  nop::Status<void> Write(const T* b, const T* e) {
    if (f->tick()) return f->err;
    const std::uint8_t* p = reinterpret_cast<const std::uint8_t*>(b); const std::size_t len = (e - b) * sizeof(T);
    for (std::size_t i = 0; i < len; i++) { if (n < cap) buf[n] = p[i]; n++; }
    return {};
  }
  nop::Status<void> Skip(std::size_t s, std::uint8_t v = 0) { if (f->tick()) return f->err; for (std::size_t i = 0; i < s; i++) { if (n < cap) buf[n] = v; n++; } return {}; }
  template <typename HandleType>
  nop::Status<nop::HandleReference> PushHandle(const HandleType& h) { if (f->tick()) return f->err; pushed++; return h ? (nop::HandleReference)(pushed - 1) : nop::kEmptyHandleReference; }
};
struct FaultyReader {
  Fault* f; const std::uint8_t* buf; std::size_t len; std::size_t pos = 0;
  nop::Status<void> Ensure(std::size_t s) { if (f->tick()) return f->err; if (s > len - pos) return nop::ErrorStatus::ReadLimitReached; return {}; }
  nop::Status<void> Read(std::uint8_t* b) { if (f->tick()) return f->err; if (pos >= len) return nop::ErrorStatus::ReadLimitReached; *b = buf[pos++]; return {}; }
  template <typename T, typename Enable = nop::EnableIfArithmetic<T>>
  nop::Status<void> Read(T* b, T* e) {
    if (f->tick()) return f->err;
    std::uint8_t* p = reinterpret_cast<std::uint8_t*>(b); const std::size_t l = (e - b) * sizeof(T);
    if (l > len - pos) return nop::ErrorStatus::ReadLimitReached;
    for (std::size_t i = 0; i < l; i++) p[i] = buf[pos++];
    return {};
  }
  nop::Status<void> Skip(std::size_t s) { if (f->tick()) return f->err; if (s > len - pos) return nop::ErrorStatus::ReadLimitReached; pos += s; return {}; }
  template <typename HandleType>
  nop::Status<HandleType> GetHandle(nop::HandleReference ref) { if (f->tick()) return f->err; return HandleType{ref < 0 ? -1 : (int)(ref + 100)}; }
};

static nop::ErrorStatus draw_error() { return static_cast<nop::ErrorStatus>(nd8() % 18 + 1); }   // every code except None

// Write with a fault at the k-th primitive call of the writer
template <typename T>
static void wfault_harness() {
  T v; Meta<T>::draw(&v);
  const std::uint8_t kd = nd8(); const nop::ErrorStatus e = draw_error();
  Fault f; f.fail_at = kd; f.err = e;
  std::uint8_t buf[Cap<T>::value] = {};
  FaultyWriter w{&f, buf, sizeof buf};
  nop::Serializer<FaultyWriter*> s{&w};
  auto st = s.Write(v);
  if (f.failed) {
    vassert(!st, 1);                                   // success is never reported after a failed I/O call
    vassert(!st && st.error() == e, 2);                // that same error, verbatim
    vassert(f.calls_after_fail == 0, 3);               // no further call to the writer
    vassert(f.calls == (int)kd + 1, 4);
    if (kd == 0) vassert(w.n == 0, 5);                 // the first call is Prepare: a Write whose Prepare fails writes nothing
  } else {
    vassert(!!st, 6);                                  // k beyond the last call: no fault, must succeed (keeps the harness non-vacuous)
    vassert(f.calls <= (int)kd, 7);
  }
  vrt_observe((std::uint64_t)f.calls);
  vrt_end();
}
// Read of a valid encoding with a fault at the k-th primitive call of the reader
template <typename T>
static void rfault_harness() {
  T v; Meta<T>::draw(&v);
  const std::uint8_t kd = nd8(); const nop::ErrorStatus e = draw_error();
  std::uint8_t enc[Cap<T>::value] = {};
  Out o(enc, sizeof enc); Meta<T>::enc(v, o); vassume(o.fits());
  Fault f; f.fail_at = kd; f.err = e;
  FaultyReader r{&f, enc, o.n};
  nop::Deserializer<FaultyReader*> d{&r};
  T out; Meta<T>::draw(&out);
  auto st = d.Read(&out);
  if (f.failed) {
    vassert(!st, 1);
    vassert(!st && st.error() == e, 2);
    vassert(f.calls_after_fail == 0, 3);
    vassert(f.calls == (int)kd + 1, 4);
  } else {
    vassert(!!st, 6);
    vassert(Meta<T>::eq(out, v), 8);
  }
  vrt_observe((std::uint64_t)f.calls);
  vrt_end();
}

// Harness templates shared by C01 / C03 / C06 (write side and round trip).
#pragma once
#include "io.h"
#include "pool.h"
#include <nop/serializer.h>

// C01: Read(Write(v)) == v through writer W and reader R, consuming exactly the bytes written;
// then a second value of type T2 back to back on the same stream.
template <typename T, typename W, typename R, typename T2 = std::uint16_t>
static void rt_harness() {
  T v; Meta<T>::draw(&v);
  T2 v2; Meta<T2>::draw(&v2);
  std::uint8_t buf[Cap<T>::value + 4] = {};
  Wr<W> w(buf, sizeof buf);
  auto st = w.write(v);
  vassert(!!st, 1);
  const std::size_t n1 = w.produced();
  auto st2 = w.write(v2);
  vassert(!!st2, 2);
  const std::size_t n2 = w.produced();
  vassert(n1 <= n2 && n2 <= sizeof buf, 3);
  Rd<R> r(buf, n2);
  T o; Meta<T>::draw(&o);                    // destination holds an arbitrary prior value
  auto rs = r.read(&o);
  vassert(!!rs, 4);
  vassert(Meta<T>::eq(o, v), 5);
  vassert(r.consumed() == n1, 6);            // consumes exactly the bytes written
  T2 o2{}; auto rs2 = r.read(&o2);
  vassert(!!rs2, 7);
  vassert(Meta<T2>::eq(o2, v2), 8);
  vassert(r.consumed() == n2, 9);
  vrt_observe(n2);
  vrt_end();
}

// C03: bytes == independent reference encoder, GetSize == produced (no handles in the pool), deterministic
template <typename T, typename W = PBW>
static void fmt_harness() {
  T v; Meta<T>::draw(&v);
  std::uint8_t buf[Cap<T>::value] = {}, ref[Cap<T>::value] = {}, buf2[Cap<T>::value] = {};
  Wr<W> w(buf, sizeof buf);
  auto st = w.write(v);
  Out o(ref, sizeof ref); Meta<T>::enc(v, o);
  vassert(!!st, 1);
  vassert(o.fits(), 2);
  vassert(w.produced() == o.n, 3);
  const std::size_t j = nd8();               // one symbolic index instead of a comparison loop: the solver quantifies over it
  if (j < o.n && j < sizeof buf) vassert(buf[j] == ref[j], 4);
  vassert(w.get_size(v) == o.n, 5);
  Wr<W> w2(buf2, sizeof buf2); auto st2 = w2.write(v);
  vassert(!!st2 && w2.produced() == w.produced(), 6);
  if (j < o.n && j < sizeof buf) vassert(buf[j] == buf2[j], 7);                        // writing the same object twice produces the same bytes
  vrt_observe(o.n);
  vrt_end();
}

// C06: GetSize never under-estimates; a buffer of capacity c: (ok and produced <= c) or WriteLimitReached,
// never a byte at index >= c.
template <typename T, typename W>
static void cap_harness() {
  T v; Meta<T>::draw(&v);
  const std::uint8_t cdraw = nd8();
  std::uint8_t buf[Cap<T>::value + 4];
  std::memset(buf, 0xA5, sizeof buf);
  std::size_t g;
  { Wr<PBW> probe(buf, 0); g = probe.get_size(v); }
  vassume(g + 1 <= Cap<T>::value);
  const std::size_t c = cdraw;               // capacity 0 .. GetSize+1
  vassume(c <= g + 1);
  Wr<W> w(buf, c);
  auto st = w.write(v);
  if (c >= g) {
    vassert(!!st, 1);                        // enough room by GetSize => never fails for lack of space
    vassert(w.produced() <= g, 2);
    vassert(w.produced() == g, 3);           // no handles in the pool: equality
  } else {
    vassert(!st && st.error() == nop::ErrorStatus::WriteLimitReached, 4);
  }
  const std::size_t j = nd8();
  if (j >= c && j < sizeof buf) vassert(buf[j] == 0xA5, 5);                        // not a single byte beyond the end of the buffer
  vrt_end();
}

// C06: BoundedWriter over a buffer writer whose OWN capacity c is the limiting one (the bound is generous):
// the wrapped writer's refusal must come through and nothing may be written behind c.
template <typename T, typename Inner>
static void cap_inner_harness() {
  T v; Meta<T>::draw(&v);
  const std::uint8_t cdraw = nd8();
  std::uint8_t buf[Cap<T>::value + 4];
  std::memset(buf, 0xA5, sizeof buf);
  std::size_t g;
  { Wr<PBW> probe(buf, 0); g = probe.get_size(v); }
  vassume(g + 1 <= Cap<T>::value);
  const std::size_t c = cdraw; vassume(c <= g + 1);
  Wr<BndW<Inner>> w(buf, c, g + 8);                       // inner capacity c, bound g + 8
  auto st = w.write(v);
  if (c >= g) { vassert(!!st && w.produced() == g, 1); }
  else vassert(!st && st.error() == nop::ErrorStatus::WriteLimitReached, 2);
  const std::size_t j = nd8();
  if (j >= c && j < sizeof buf) vassert(buf[j] == 0xA5, 3);
  vrt_end();
}

// C20: HostEndian conversions are correct byte-order maps for ints and floats.
// Every value is fully symbolic (64-bit types included).  Oracle: independent
// byte loops over the object representation.  Host assumed little-endian
// (checked by a static_assert-like vassert on a constant).
//@tu unwind=10
#include "vrt.h"
#include <cstring>
#include <nop/utility/endian.h>

template <typename T> struct Bits;
template <> struct Bits<std::uint8_t> { static std::uint8_t draw() { return nd8(); } };
template <> struct Bits<std::uint16_t> { static std::uint16_t draw() { return nd16(); } };
template <> struct Bits<std::uint32_t> { static std::uint32_t draw() { return nd32(); } };
template <> struct Bits<std::uint64_t> { static std::uint64_t draw() { return nd64(); } };
template <std::size_t N> struct UIntOf;
template <> struct UIntOf<1> { using type = std::uint8_t; };
template <> struct UIntOf<2> { using type = std::uint16_t; };
template <> struct UIntOf<4> { using type = std::uint32_t; };
template <> struct UIntOf<8> { using type = std::uint64_t; };

template <typename T>
static void endian_harness() {
  using U = typename UIntOf<sizeof(T)>::type;
  const U bits = Bits<U>::draw();
  T v; std::memcpy(&v, &bits, sizeof(T));

  // independent oracle: reverse the object representation byte by byte
  unsigned char in[sizeof(T)], rev[sizeof(T)];
  std::memcpy(in, &bits, sizeof(T));
  for (std::size_t i = 0; i < sizeof(T); i++) rev[i] = in[sizeof(T) - 1 - i];

  const std::uint16_t probe = 0x0102; unsigned char pb[2]; std::memcpy(pb, &probe, 2);
  vassume(pb[0] == 0x02);  // little-endian host (the only target in the bound)

  T fl = nop::HostEndian<T>::FromLittle(v), tl = nop::HostEndian<T>::ToLittle(v);
  T fb = nop::HostEndian<T>::FromBig(v), tb = nop::HostEndian<T>::ToBig(v);
  unsigned char o[sizeof(T)];
  std::memcpy(o, &fl, sizeof(T)); vassert(std::memcmp(o, in, sizeof(T)) == 0, 1);   // FromLittle = identity
  std::memcpy(o, &tl, sizeof(T)); vassert(std::memcmp(o, in, sizeof(T)) == 0, 2);   // ToLittle = identity
  std::memcpy(o, &fb, sizeof(T)); vassert(std::memcmp(o, rev, sizeof(T)) == 0, 3);  // FromBig = byte reversal
  std::memcpy(o, &tb, sizeof(T)); vassert(std::memcmp(o, rev, sizeof(T)) == 0, 4);  // ToBig = byte reversal
  // To and From are mutual inverses, bit pattern preserved (NaN payloads included)
  T r1 = nop::HostEndian<T>::FromBig(nop::HostEndian<T>::ToBig(v));
  T r2 = nop::HostEndian<T>::ToBig(nop::HostEndian<T>::FromBig(v));
  T r3 = nop::HostEndian<T>::FromLittle(nop::HostEndian<T>::ToLittle(v));
  T r4 = nop::HostEndian<T>::ToLittle(nop::HostEndian<T>::FromLittle(v));
  std::memcpy(o, &r1, sizeof(T)); vassert(std::memcmp(o, in, sizeof(T)) == 0, 5);
  std::memcpy(o, &r2, sizeof(T)); vassert(std::memcmp(o, in, sizeof(T)) == 0, 6);
  std::memcpy(o, &r3, sizeof(T)); vassert(std::memcmp(o, in, sizeof(T)) == 0, 7);
  std::memcpy(o, &r4, sizeof(T)); vassert(std::memcmp(o, in, sizeof(T)) == 0, 8);
  U ob; std::memcpy(&ob, &fb, sizeof(T)); vrt_observe(ob);
  vrt_end();
}

#define H(name, T) extern "C" void hq_endian_##name(void) { endian_harness<T>(); }
H(u8, std::uint8_t) H(u16, std::uint16_t) H(u32, std::uint32_t) H(u64, std::uint64_t)
H(i8, std::int8_t) H(i16, std::int16_t) H(i32, std::int32_t) H(i64, std::int64_t)
H(char, char) H(long, long) H(ulonglong, unsigned long long) H(bool_sized_uchar, unsigned char)
H(float, float) H(double, double)

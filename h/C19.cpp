// C19: no hidden shared state across threads; ThreadLocal is per thread and per (T, Slot).
//  (1) footprint: this TU is translated with guard=1: every access to a mutable, non-thread_local global that
//      belongs to library code (demangled name contains nop::) is an assertion.  It is proved unreachable for
//      round trips, table / variant traffic and RPC dispatch (the harnesses of C14 are included below) for all
//      inputs within their bounds.  Operations whose footprint is confined to their arguments, locals and
//      thread-local storage commute with operations of other threads on distinct objects; that reduction from
//      "all interleavings" to "each operation in isolation" is a paper argument and is listed as an assumption.
//  (2) ThreadLocal: API-level schedules over 3 simulated threads (thread_local globals swapped per thread).
//@tu guard=1 unwind=12 memunwind=90 loop:ReadEntries=3
#include "C14.cpp"
#include "ser.h"
#include <nop/types/thread_local.h>

extern "C" void hq_footprint_rt_T1(void) { rt_harness<T1, PBW, PBR>(); }
extern "C" void hq_footprint_rt_var(void) { rt_harness<nop::Variant<S0, bool, nop::Optional<u8>>, BW, BR>(); }
extern "C" void hq_footprint_rt_res(void) { rt_harness<nop::Result<Err, S0>, SW, SR>(); }
extern "C" void hq_footprint_rt_lb(void) { rt_harness<LB2, CBW, BndR<PBR>>(); }

// ---- ThreadLocal per thread and slot
struct SlotA; struct SlotB;
struct Cell { bool has; int v; };
struct Ctx { std::uint8_t op; int x; Cell* cell; int slot; };
template <typename T, typename Slot> static void tl_step(Ctx* c) {
  // handles are constructed with different argument types / value categories (literal-like prvalue, lvalue, const lvalue)
  const T cx = (T)c->x; T lx = (T)c->x;
  switch (c->op % 6) {
    case 0: { nop::ThreadLocal<T, Slot> tl{(T)c->x}; if (!c->cell->has) { c->cell->has = true; c->cell->v = (T)c->x; } vassert(tl.Get() == (T)c->cell->v, 1); break; }       // first initialisation wins
    case 1: { nop::ThreadLocal<T, Slot> tl{lx}; if (!c->cell->has) { c->cell->has = true; c->cell->v = (T)c->x; } vassert(tl.Get() == (T)c->cell->v, 2); tl.Get() = (T)(c->x + 1); c->cell->v = (T)(c->x + 1); break; }
    case 2: { nop::ThreadLocal<T, Slot> tl{cx}; if (!c->cell->has) { c->cell->has = true; c->cell->v = (T)c->x; } tl.Clear(); c->cell->has = false; break; }
    case 3: { nop::ThreadLocal<T, Slot> tl{cx}; if (!c->cell->has) { c->cell->has = true; c->cell->v = (T)c->x; } tl.Clear(); tl.Initialize((T)(c->x + 7)); c->cell->has = true; c->cell->v = (T)(c->x + 7);
              nop::ThreadLocal<T, Slot> other{(T)0}; vassert(other.Get() == (T)(c->x + 7), 3); break; }   // a second handle in the same thread aliases the same value
    case 4: { nop::ThreadLocal<T, Slot> tl{lx}; if (!c->cell->has) { c->cell->has = true; c->cell->v = (T)c->x; } tl.Initialize(cx); vassert(tl.Get() == (T)c->cell->v, 4); break; }  // Initialize on an initialised slot is a no-op
    default: { nop::ThreadLocal<T, Slot> a{(T)c->x}; nop::ThreadLocal<T, Slot> b{lx}; if (!c->cell->has) { c->cell->has = true; c->cell->v = (T)c->x; } vassert(&a.Get() == &b.Get() && a.Get() == (T)c->cell->v, 5); break; }
  }
}
static void tl_thread_fn(void* p) {
  Ctx* c = static_cast<Ctx*>(p);
  switch (c->slot) {
    case 0: tl_step<int, SlotA>(c); break;
    case 1: tl_step<int, SlotB>(c); break;
    default: tl_step<std::int16_t, SlotA>(c); break;     // same Slot, other T: a distinct (T, Slot) pair
  }
}
template <int K>
static void tls_harness() {
  std::uint8_t th[K], sl[K], op[K]; int x[K];
  for (int i = 0; i < K; i++) { th[i] = nd8(); sl[i] = nd8(); op[i] = nd8(); x[i] = (int)(std::int16_t)nd16(); }
  Cell cells[3][3] = {};
  for (int i = 0; i < K; i++) {
    const std::uint32_t t = th[i] % 3; const int s = sl[i] % 3;
    Ctx c{op[i], x[i], &cells[t][s], s};
    vrt_run_on(t, &tl_thread_fn, &c);                     // schedule: any thread, any slot, any operation at every step
  }
  vrt_end();
}
extern "C" void hq_tls_k2(void) { tls_harness<2>(); }
extern "C" void hq_tls_k3(void) { tls_harness<3>(); }
extern "C" void ht_tls_k4(void) { tls_harness<4>(); }
// (K = 5 gave no verdict in 1500 s under the -fno-inline lowering)

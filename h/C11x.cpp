// C11 (lifetime part): nothing is leaked or destroyed twice when decoding into objects with prior contents,
// including objects left behind by a failed read.  Serializable lifetime-tracking element TrS.
//@tu unwind=12 memunwind=60 loop:LogicalBuffer=4 loop:ReadEntries=5
//@h life_tab : loop:ReadEntries=3 timeout=900
#include "rd.h"
#include "tr.h"

struct TrS {
  enum : std::uint32_t { kAlive = 0x51A11FE, kDead = 0xDEAD51 };
  std::uint32_t magic; std::int32_t v;
  bool alive() const { return magic == kAlive; }
  TrS() : magic(kAlive), v(0) { TrStats::live++; TrStats::ctors++; }
  TrS(const TrS& o) : magic(kAlive), v(o.v) { if (!o.alive()) TrStats::bad = true; TrStats::live++; TrStats::ctors++; }
  TrS& operator=(const TrS& o) { if (!alive() || !o.alive()) TrStats::bad = true; v = o.v; return *this; }
  ~TrS() { if (!alive()) TrStats::bad = true; magic = kDead; TrStats::live--; TrStats::dtors++; }
  NOP_STRUCTURE(TrS, v);
};
struct TT { nop::Entry<TrS, 1> a; nop::Entry<u8, 2> b; nop::Entry<nop::Optional<TrS>, 3> c; NOP_TABLE_HASH(9, TT, a, b, c); };
struct LT { TrS d[2]; u8 n; NOP_STRUCTURE(LT, (d, n)); };

template <typename T, int N, int M>
static void life_harness() {
  std::uint8_t e[N ? N : 1]; for (int i = 0; i < N; i++) e[i] = nd8();
  std::uint8_t j[M ? M : 1]; for (int i = 0; i < M; i++) j[i] = nd8();
  TrStats::reset();
  {
    T d;
    { Rd<PBR> r0(j, M); auto s0 = r0.read(&d); (void)s0; }
    vassert(!TrStats::bad, 1);
    { Rd<PBR> r1(e, N); auto s1 = r1.read(&d); (void)s1; }
    vassert(!TrStats::bad, 2);
    vassert(TrStats::live >= 0, 3);
  }
  vassert(TrStats::live == 0, 4);                    // everything constructed during both reads is destroyed exactly once
  vassert(!TrStats::bad && TrStats::ctors == TrStats::dtors, 5);
  vrt_observe((std::uint64_t)TrStats::ctors);
  vrt_end();
}
#define LH(tier, name, T, N, M) extern "C" void tier##_life_##name##_m##M##_n##N(void) { life_harness<T, N, M>(); }
using OptTrS = nop::Optional<TrS>; using VarTrS = nop::Variant<TrS, u8>; using ResTrS = nop::Result<Err, TrS>; using ArrTrS = std::array<TrS, 2>;
LH(hq, opt, OptTrS, 4, 4) LH(hq, var, VarTrS, 6, 6) LH(hq, res, ResTrS, 4, 4) LH(hq, arr, ArrTrS, 8, 8) LH(hq, lb, LT, 10, 10) LH(hq, tab, TT, 4, 4) LH(ht, tab, TT, 6, 6)
LH(ht, opt, OptTrS, 6, 6) LH(ht, var, VarTrS, 8, 4) LH(ht, res, ResTrS, 6, 3) LH(ht, arr, ArrTrS, 10, 5) LH(ht, lb, LT, 12, 6) LH(ht, tab, TT, 12, 10) LH(ht, tab, TT, 10, 12)

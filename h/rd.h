// Read-side harness templates shared by C02 / C04 / C05 / C11.
#pragma once
#include "io.h"
#include "pool.h"
#include <nop/serializer.h>

// C02: arbitrary N input bytes through bounded reader R.  Memory safety is decided by CBMC's
// pointer/bounds checks on every dereference of the translated library code over an EXACT-size
// input object; afterwards the same destination must accept a valid encoding.
template <typename T, typename R, int N, bool REREAD = true>
static void hostile_harness() {
  std::uint8_t raw[N ? N : 1];
  for (int i = 0; i < N; i++) raw[i] = nd8();
  const std::uint8_t* buf = N ? raw : raw + 1;          // N == 0: any access is out of bounds
  T w; Meta<T>::draw(&w);
  T o; Meta<T>::draw(&o);
  {
    Rd<R> r(buf, N);
    auto st = r.read(&o);
    vassert(r.consumed() <= (std::size_t)N, 1);
    vrt_observe(!!st ? 1 : 0);
  }
  if (!REREAD) { vrt_end(); return; }
  // after a (possibly failed) read the destination is valid to read into again
  std::uint8_t vb[Cap<T>::value] = {};
  Out e(vb, sizeof vb); Meta<T>::enc(w, e);
  vassume(e.fits());
  Rd<PBR> r2(vb, e.n);
  auto st2 = r2.read(&o);
  vassert(!!st2, 2);
  vassert(Meta<T>::eq(o, w), 3);
  vrt_end();
}

// C04: for ALL byte strings of length N the library decoder (PedanticBufferReader) and the independent
// reference decoder agree on accept/reject, decoded value and consumed length.
template <typename T, int N>
static void lang_harness() {
  std::uint8_t raw[N ? N : 1];
  for (int i = 0; i < N; i++) raw[i] = nd8();
  T a, b; Meta<T>::draw(&a); Meta<T>::draw(&b);
  Rd<PBR> r(raw, N);
  auto st = r.read(&a);
  In in(raw, N);
  const bool ok = Meta<T>::dec(in, &b);
  vassert(!!st == ok, 1);
  if (ok && st) {
    vassert(Meta<T>::eq(a, b), 2);
    vassert(r.consumed() == in.pos, 3);
  }
  vrt_observe(ok ? in.pos + 1 : 0);
  vrt_end();
}

// C05: every strict prefix of a valid encoding is rejected by reader R.  The encoding comes from the
// reference encoder (proved byte-identical to the library's in C03); bytes behind the cut are arbitrary.
template <typename T, typename R>
static void trunc_harness() {
  T v; Meta<T>::draw(&v);
  const std::uint8_t kdraw = nd8();
  std::uint8_t junk[Cap<T>::value]; for (std::size_t i = 0; i < sizeof junk; i++) junk[i] = nd8();
  std::uint8_t enc[Cap<T>::value] = {};
  Out e(enc, sizeof enc); Meta<T>::enc(v, e);
  vassume(e.fits());
  const std::size_t k = kdraw; vassume(k < e.n);
  for (std::size_t i = 0; i < sizeof enc; i++) if (i >= k) enc[i] = junk[i];
  T o; Meta<T>::draw(&o);
  Rd<R> r(enc, k);
  auto st = r.read(&o);
  vassert(!st, 1);                                      // never reported as successfully decoded
  vrt_end();
}

// C11: reading bytes into an object with arbitrary prior contents (an arbitrary value, then a read of M
// arbitrary bytes that may have failed at any point) == reading them into a fresh object.
template <typename T, int N, int M>
static void prior_harness() {
  std::uint8_t e[N ? N : 1]; for (int i = 0; i < N; i++) e[i] = nd8();
  std::uint8_t j[M ? M : 1]; for (int i = 0; i < M; i++) j[i] = nd8();
  T d1; Meta<T>::draw(&d1);
  T d0{};
  { Rd<PBR> r0(j, M); auto s0 = r0.read(&d1); (void)s0; }     // history: a read that succeeded or failed somewhere
  Rd<PBR> r1(e, N); auto s1 = r1.read(&d1);
  Rd<PBR> rf(e, N); auto sf = rf.read(&d0);
  vassert(!!s1 == !!sf, 1);
  if (!s1 && !sf) vassert(s1.error() == sf.error(), 2);
  if (s1 && sf) { vassert(Meta<T>::eq(d1, d0), 3); }
  vassert(r1.consumed() == rf.consumed(), 4);
  vrt_end();
}

// C18: table hashes / interface hashes / method selectors are SipHash-2-4 of
// the name bytes.
//  (1) nop::SipHash::Compute == independent transcription of reference
//      siphash24.c for ALL contents of length L and ALL 128-bit keys (L is the
//      enumerated bound, one query per L);
//  (2) the run-time hash over symbolic NAME bytes with the library's fixed keys
//      (the exact call shape the NOP_TABLE_NS / NOP_INTERFACE / NOP_METHOD
//      macros use: char array incl. the terminating NUL) equals the reference;
//  (3) for declared tables / interfaces / methods the compile-time constant
//      (observed on the wire for tables, through Interface<>::GetInterfaceHash
//      and GetMethodSelector for RPC) equals the reference value computed at
//      run time over the name bytes: enumeration of the declared names.
//@tu unwind=12 solver=kissat timeout=900
//@h sip_1[0-9]$ : unwind=21
//@h sip_2[0-9]$ : unwind=31
//@h sip_3[0-9]$ : unwind=41
//@h sip_40$ : unwind=42
//@h sip_2[56][0-9]$ : unwind=266 timeout_thorough=3000
//@h sipname_1[0-9]$ : unwind=21 timeout_thorough=2400
//@h sipname_2[0-9]$ : unwind=31 timeout_thorough=2400
//@h sipname_3[0-9]$ : unwind=41
//@h names : solver=minisat unwind=70
#include "vrt.h"
#include <nop/rpc/interface.h>
#include <nop/serializer.h>
#include <nop/table.h>
#include <nop/utility/buffer_writer.h>
#include <nop/utility/sip_hash.h>

#define ROTL(x, b) (std::uint64_t)(((x) << (b)) | ((x) >> (64 - (b))))
// Transcribed from the SipHash reference implementation (siphash24.c, Aumasson
// & Bernstein), independent of the library's formulation.
static std::uint64_t ref_siphash24(const std::uint8_t* in, std::size_t inlen, std::uint64_t k0, std::uint64_t k1) {
  std::uint64_t v0 = 0x736f6d6570736575ULL ^ k0, v1 = 0x646f72616e646f6dULL ^ k1, v2 = 0x6c7967656e657261ULL ^ k0, v3 = 0x7465646279746573ULL ^ k1;
  const std::uint8_t* end = in + inlen - (inlen % 8);
  const int left = inlen & 7; std::uint64_t b = ((std::uint64_t)inlen) << 56;
#define SIPROUND do { v0 += v1; v1 = ROTL(v1, 13); v1 ^= v0; v0 = ROTL(v0, 32); v2 += v3; v3 = ROTL(v3, 16); v3 ^= v2; v0 += v3; v3 = ROTL(v3, 21); v3 ^= v0; v2 += v1; v1 = ROTL(v1, 17); v1 ^= v2; v2 = ROTL(v2, 32); } while (0)
  for (; in != end; in += 8) {
    std::uint64_t m = 0; for (int i = 0; i < 8; i++) m |= (std::uint64_t)in[i] << (8 * i);
    v3 ^= m; SIPROUND; SIPROUND; v0 ^= m;
  }
  for (int i = 0; i < left; i++) b |= (std::uint64_t)in[i] << (8 * i);
  v3 ^= b; SIPROUND; SIPROUND; v0 ^= b; v2 ^= 0xff; SIPROUND; SIPROUND; SIPROUND; SIPROUND;
  return v0 ^ v1 ^ v2 ^ v3;
}

template <std::size_t L>
static void sip() {
  std::uint8_t buf[L ? L : 1];
  for (std::size_t i = 0; i < L; i++) buf[i] = nd8();
  const std::uint64_t k0 = nd64(), k1 = nd64();
  const std::uint64_t a = nop::SipHash::Compute(nop::BlockReader<std::uint8_t>(buf, L), k0, k1);
  const std::uint64_t b = ref_siphash24(buf, L, k0, k1);
  vassert(a == b, 1);
  vrt_observe(a);
  vrt_end();
}

// (2) name-shaped input: char array of N bytes whose last byte is NUL, fixed
// library keys, through the array overload the macros call.
template <std::size_t N>
static void sip_name() {
  char name[N];
  for (std::size_t i = 0; i + 1 < N; i++) name[i] = (char)nd8();
  name[N - 1] = 0;
  std::uint8_t raw[N]; for (std::size_t i = 0; i < N; i++) raw[i] = (std::uint8_t)name[i];
  vassert(nop::SipHash::Compute(name, nop::kNopTableKey0, nop::kNopTableKey1) == ref_siphash24(raw, N, 0xbaadf00ddeadbeefULL, 0x0123456789abcdefULL), 1);
  vassert(nop::SipHash::Compute(name, nop::kNopInterfaceKey0, nop::kNopInterfaceKey1) == ref_siphash24(raw, N, 0xdeadcafebaadf00dULL, 0x0123456789abcdefULL), 2);
  const std::uint64_t ih = nd64();
  vassert(nop::ComputeMethodSelector<std::uint64_t>(name, ih) == ref_siphash24(raw, N, ih, 0x0123456789abcdefULL), 3);
  vassert(nop::ComputeMethodSelector<std::uint32_t>(name, ih) == (std::uint32_t)ref_siphash24(raw, N, ih, 0x0123456789abcdefULL), 4);
  vrt_end();
}

#define HS(tier, L) extern "C" void tier##_sip_##L(void) { sip<L>(); }
HS(hq, 0) HS(hq, 1) HS(hq, 2) HS(hq, 3) HS(hq, 4) HS(hq, 5) HS(hq, 6) HS(hq, 7) HS(hq, 8) HS(hq, 9)
HS(hq, 15) HS(hq, 16) HS(hq, 17)
HS(ht, 10) HS(ht, 11) HS(ht, 12) HS(ht, 13) HS(ht, 14) HS(ht, 18) HS(ht, 19) HS(ht, 20) HS(ht, 21) HS(ht, 22) HS(ht, 23)
HS(ht, 24) HS(ht, 25) HS(ht, 26) HS(ht, 27) HS(ht, 28) HS(ht, 29) HS(ht, 30) HS(ht, 31) HS(ht, 32) HS(ht, 33) HS(ht, 34)
HS(ht, 35) HS(ht, 36) HS(ht, 37) HS(ht, 38) HS(ht, 39) HS(ht, 40)
HS(ht, 255) HS(ht, 256) HS(ht, 257) HS(ht, 263) HS(ht, 264)
#define HN(tier, N) extern "C" void tier##_sipname_##N(void) { sip_name<N>(); }
HN(hq, 1) HN(hq, 2) HN(ht, 6) HN(hq, 8) HN(hq, 9) HN(ht, 12) HN(ht, 16) HN(ht, 17) HN(ht, 24) HN(ht, 25)

// (3) declared names.  The table hash is observed where a peer would see it:
// on the wire, as the integer following the table prefix byte.
struct TA { nop::Entry<std::uint8_t, 1> a; NOP_TABLE_NS("T", TA, a); };
struct TB { nop::Entry<std::uint8_t, 1> a; NOP_TABLE_NS("io.github.eieio.verif.TableB", TB, a); };
struct TC { nop::Entry<std::uint8_t, 1> a; NOP_TABLE_NS("", TC, a); };
struct TD { nop::Entry<std::uint8_t, 1> a; NOP_TABLE_NS("1234567", TD, a); };       // 8 bytes with NUL: exactly one block
struct TE { nop::Entry<std::uint8_t, 1> a; NOP_TABLE_NS("12345678", TE, a); };      // 9 bytes
struct TF { nop::Entry<std::uint8_t, 1> a; NOP_TABLE_NS("a.rather.long.table.namespace.name/with.punctuation-0123456789", TF, a); };
struct TZ { nop::Entry<std::uint8_t, 1> a; NOP_TABLE(TZ, a); };                      // documented: hash 0

static bool wire_hash(const std::uint8_t* p, std::size_t n, std::uint64_t* out) {
  // reference decode of an unsigned integer of any class (docs/format.md)
  if (n < 2 || p[0] != 0xb5) return false;
  const std::uint8_t c = p[1];
  if (c < 0x80) { *out = c; return true; }
  std::size_t w = c == 0x80 ? 1 : c == 0x81 ? 2 : c == 0x82 ? 4 : c == 0x83 ? 8 : 0;
  if (!w || n < 2 + w) return false;
  std::uint64_t v = 0; for (std::size_t i = 0; i < w; i++) v |= (std::uint64_t)p[2 + i] << (8 * i);
  *out = v; return true;
}
template <typename T, std::size_t N>
static void table_name(const char (&name)[N], int id) {
  std::uint8_t buf[24] = {};
  nop::Serializer<nop::BufferWriter> s{buf, sizeof buf};
  T t; auto st = s.Write(t);
  std::uint64_t h = 1; bool ok = !!st && wire_hash(buf, s.writer().size(), &h);
  std::uint8_t raw[N]; for (std::size_t i = 0; i < N; i++) raw[i] = (std::uint8_t)name[i];
  vassert(ok && h == ref_siphash24(raw, N, 0xbaadf00ddeadbeefULL, 0x0123456789abcdefULL), id);
}

struct IA : nop::Interface<IA> { NOP_INTERFACE("io.github.eieio.verif.IA"); NOP_METHOD(Add, int(int, int)); NOP_METHOD(Q, int(int)); NOP_INTERFACE_API(Add, Q); };
struct IB : nop::Interface<IB> { NOP_INTERFACE32("B"); NOP_METHOD(Method_With_A_Long_Name_0123456789, int(int)); NOP_INTERFACE_API(Method_With_A_Long_Name_0123456789); };
template <std::size_t N> static std::uint64_t rs(const char (&name)[N], std::uint64_t k0, std::uint64_t k1) {
  std::uint8_t raw[N]; for (std::size_t i = 0; i < N; i++) raw[i] = (std::uint8_t)name[i];
  return ref_siphash24(raw, N, k0, k1);
}
extern "C" void hq_names(void) {
  table_name<TA>("T", 1); table_name<TB>("io.github.eieio.verif.TableB", 2); table_name<TC>("", 3);
  table_name<TD>("1234567", 4); table_name<TE>("12345678", 5);
  table_name<TF>("a.rather.long.table.namespace.name/with.punctuation-0123456789", 6);
  { std::uint8_t buf[8] = {}; nop::Serializer<nop::BufferWriter> s{buf, sizeof buf}; TZ t; auto st = s.Write(t); std::uint64_t h = 1;
    vassert(!!st && wire_hash(buf, s.writer().size(), &h) && h == 0, 7); }
  const std::uint64_t ia = rs("io.github.eieio.verif.IA", 0xdeadcafebaadf00dULL, 0x0123456789abcdefULL);
  vassert(IA::GetInterfaceHash() == ia, 10);
  vassert(IA::GetMethodSelector<0>() == rs("Add", ia, 0x0123456789abcdefULL), 11);
  vassert(IA::GetMethodSelector<1>() == rs("Q", ia, 0x0123456789abcdefULL), 12);
  const std::uint64_t ib = rs("B", 0xdeadcafebaadf00dULL, 0x0123456789abcdefULL);
  vassert(IB::GetInterfaceHash() == ib, 13);
  vassert(IB::GetMethodSelector<0>() == (std::uint32_t)rs("Method_With_A_Long_Name_0123456789", ib, 0x0123456789abcdefULL), 14);
  // compile time == run time over the same bytes
  constexpr std::uint64_t ct = nop::SipHash::Compute("compile.time", nop::kNopTableKey0, nop::kNopTableKey1);
  char rt_name[13]; const char* lit = "compile.time"; for (int i = 0; i < 13; i++) rt_name[i] = lit[i];
  volatile std::uint64_t k0 = nop::kNopTableKey0;
  vassert(ct == nop::SipHash::Compute(rt_name, k0, nop::kNopTableKey1), 15);
  vrt_end();
}

// Meta<T>: for every type constructor in the pool
//   draw(T*)            a fully symbolic value (container counts: see MetaCfg)
//   eq(a, b)            member-wise equality (floats by bit pattern, logical
//                       buffers logically: count + first count elements)
//   enc(v, Out&)        INDEPENDENT reference encoder written from
//                       docs/format.md and the format diagrams in the headers
//   dec(In&, T*)        INDEPENDENT reference decoder: accepts exactly the
//                       documented language, yields value and consumed length
// This header includes NO nop/base/* header and shares no code with libnop's
// Encoding<T>.  (It does include nop/types/* and the declaration macros, which
// only define the value types.)
#pragma once
#include <array>
#include <cstdint>
#include <cstring>
#include <functional>
#include <string>
#include <tuple>
#include <type_traits>
#include <utility>
#include <vector>
#include "vrt.h"
#include <nop/types/optional.h>
#include <nop/types/result.h>
#include <nop/types/variant.h>

struct MetaCfg { static int heap_count; };   // element count drawn for every std::vector / std::basic_string (enumerated bound)
int MetaCfg::heap_count = 0;

struct Out {
  std::uint8_t* p; std::size_t cap; std::size_t n = 0;
  Out(std::uint8_t* p_, std::size_t cap_) : p(p_), cap(cap_) {}
  void put(std::uint8_t b) { if (n < cap) p[n] = b; n++; }
  bool fits() const { return n <= cap; }
};
struct In {
  const std::uint8_t* p; std::size_t n; std::size_t pos = 0;
  In(const std::uint8_t* p_, std::size_t n_) : p(p_), n(n_) {}
  bool get(std::uint8_t* b) { if (pos >= n) return false; *b = p[pos++]; return true; }
  bool peek(std::uint8_t* b) const { if (pos >= n) return false; *b = p[pos]; return true; }
  std::size_t left() const { return n - pos; }
};

// ---------------------------------------------------------------- integers
static inline void ref_put_le(Out& o, std::uint64_t v, int bytes) { for (int i = 0; i < bytes; i++) o.put((std::uint8_t)(v >> (8 * i))); }
static inline void ref_enc_uint(Out& o, std::uint64_t v) {
  if (v < 128) o.put((std::uint8_t)v);
  else if (v < 256) { o.put(0x80); ref_put_le(o, v, 1); }
  else if (v < 65536) { o.put(0x81); ref_put_le(o, v, 2); }
  else if (v < 4294967296ULL) { o.put(0x82); ref_put_le(o, v, 4); }
  else { o.put(0x83); ref_put_le(o, v, 8); }
}
static inline void ref_enc_int(Out& o, std::int64_t v) {
  if (v >= -64 && v <= 127) o.put((std::uint8_t)v);
  else if (v >= -128 && v <= 127) { o.put(0x84); ref_put_le(o, (std::uint64_t)v, 1); }
  else if (v >= -32768 && v <= 32767) { o.put(0x85); ref_put_le(o, (std::uint64_t)v, 2); }
  else if (v >= -2147483648LL && v <= 2147483647LL) { o.put(0x86); ref_put_le(o, (std::uint64_t)v, 4); }
  else { o.put(0x87); ref_put_le(o, (std::uint64_t)v, 8); }
}
static inline bool ref_get_le(In& in, int bytes, std::uint64_t* v) {
  std::uint64_t r = 0;
  for (int i = 0; i < bytes; i++) { std::uint8_t b; if (!in.get(&b)) return false; r |= (std::uint64_t)b << (8 * i); }
  *v = r; return true;
}
// unsigned destination of `maxbytes` bytes: POS, U8 .. U(maxbytes)
static inline bool ref_dec_uint(In& in, int maxbytes, std::uint64_t* v) {
  std::uint8_t c; if (!in.get(&c)) return false;
  if (c < 0x80) { *v = c; return true; }
  int w = c == 0x80 ? 1 : c == 0x81 ? 2 : c == 0x82 ? 4 : c == 0x83 ? 8 : 0;
  if (w == 0 || w > maxbytes) return false;
  return ref_get_le(in, w, v);
}
// signed destination: POS, NEG, I8 .. I(maxbytes)
static inline bool ref_dec_int(In& in, int maxbytes, std::int64_t* v) {
  std::uint8_t c; if (!in.get(&c)) return false;
  if (c < 0x80) { *v = c; return true; }
  if (c >= 0xc0) { *v = (std::int64_t)(std::int8_t)c; return true; }
  int w = c == 0x84 ? 1 : c == 0x85 ? 2 : c == 0x86 ? 4 : c == 0x87 ? 8 : 0;
  if (w == 0 || w > maxbytes) return false;
  std::uint64_t r; if (!ref_get_le(in, w, &r)) return false;
  if (w == 1) *v = (std::int8_t)r; else if (w == 2) *v = (std::int16_t)r; else if (w == 4) *v = (std::int32_t)r; else *v = (std::int64_t)r;
  return true;
}

template <std::size_t N> struct DrawBits;
template <> struct DrawBits<1> { static std::uint64_t draw() { return nd8(); } };
template <> struct DrawBits<2> { static std::uint64_t draw() { return nd16(); } };
template <> struct DrawBits<4> { static std::uint64_t draw() { return nd32(); } };
template <> struct DrawBits<8> { static std::uint64_t draw() { return nd64(); } };

template <typename T, typename Enable = void> struct Meta;

template <> struct Meta<bool> {
  static void draw(bool* v) { *v = ndbool(); }
  static bool eq(bool a, bool b) { return a == b; }
  static void enc(bool v, Out& o) { o.put(v ? 0x01 : 0x00); }
  static bool dec(In& in, bool* v) { std::uint8_t c; if (!in.get(&c) || c > 1) return false; *v = c == 1; return true; }
};
template <typename T>
struct Meta<T, std::enable_if_t<std::is_integral<T>::value && !std::is_same<T, bool>::value>> {
  // plain `char` is documented as an unsigned 8-bit value on the wire
  enum : bool { kSigned = std::is_signed<T>::value && !std::is_same<T, char>::value };
  static void draw(T* v) { *v = (T)DrawBits<sizeof(T)>::draw(); }
  static bool eq(T a, T b) { return a == b; }
  static void enc(T v, Out& o) { if (kSigned) ref_enc_int(o, (std::int64_t)v); else ref_enc_uint(o, (std::uint64_t)(std::make_unsigned_t<T>)v); }
  static bool dec(In& in, T* v) {
    if (kSigned) { std::int64_t r; if (!ref_dec_int(in, sizeof(T), &r)) return false; *v = (T)r; return true; }
    std::uint64_t r; if (!ref_dec_uint(in, sizeof(T), &r)) return false; *v = (T)r; return true;
  }
};
template <typename T>
struct Meta<T, std::enable_if_t<std::is_enum<T>::value>> {
  using U = std::underlying_type_t<T>;
  static void draw(T* v) { U u; Meta<U>::draw(&u); *v = static_cast<T>(u); }
  static bool eq(T a, T b) { return a == b; }
  static void enc(T v, Out& o) { Meta<U>::enc(static_cast<U>(v), o); }
  static bool dec(In& in, T* v) { U u; if (!Meta<U>::dec(in, &u)) return false; *v = static_cast<T>(u); return true; }
};
template <> struct Meta<float> {
  static void draw(float* v) { std::uint32_t b = nd32(); std::memcpy(v, &b, 4); }
  static bool eq(float a, float b) { return std::memcmp(&a, &b, 4) == 0; }
  static void enc(float v, Out& o) { std::uint32_t b; std::memcpy(&b, &v, 4); o.put(0x88); ref_put_le(o, b, 4); }
  static bool dec(In& in, float* v) { std::uint8_t c; std::uint64_t r; if (!in.get(&c) || c != 0x88 || !ref_get_le(in, 4, &r)) return false; std::uint32_t b = (std::uint32_t)r; std::memcpy(v, &b, 4); return true; }
};
template <> struct Meta<double> {
  static void draw(double* v) { std::uint64_t b = nd64(); std::memcpy(v, &b, 8); }
  static bool eq(double a, double b) { return std::memcmp(&a, &b, 8) == 0; }
  static void enc(double v, Out& o) { std::uint64_t b; std::memcpy(&b, &v, 8); o.put(0x89); ref_put_le(o, b, 8); }
  static bool dec(In& in, double* v) { std::uint8_t c; std::uint64_t r; if (!in.get(&c) || c != 0x89 || !ref_get_le(in, 8, &r)) return false; std::memcpy(v, &r, 8); return true; }
};

// raw little-endian element of an integral array inside BIN / STR
template <typename T> static inline void ref_put_raw(Out& o, T v) { std::uint64_t b = 0; std::memcpy(&b, &v, sizeof(T)); ref_put_le(o, b, sizeof(T)); }
template <typename T> static inline bool ref_get_raw(In& in, T* v) { std::uint64_t b; if (!ref_get_le(in, sizeof(T), &b)) return false; std::memcpy(v, &b, sizeof(T)); return true; }

// ---------------------------------------------------------------- sequences
// fixed-size sequence accessors shared by std::array and C arrays
template <typename T, std::size_t N, typename Arr>
struct FixedSeq {
  static void draw(Arr* a) { for (std::size_t i = 0; i < N; i++) Meta<T>::draw(&(*a)[i]); }
  static bool eq(const Arr& a, const Arr& b) { for (std::size_t i = 0; i < N; i++) if (!Meta<T>::eq(a[i], b[i])) return false; return true; }
  static void enc(const Arr& a, Out& o) {
    if (std::is_integral<T>::value) { o.put(0xbc); ref_enc_uint(o, N * sizeof(T)); for (std::size_t i = 0; i < N; i++) ref_put_raw_any(o, a[i]); }
    else { o.put(0xba); ref_enc_uint(o, N); for (std::size_t i = 0; i < N; i++) Meta<T>::enc(a[i], o); }
  }
  static bool dec(In& in, Arr* a) {
    std::uint8_t c; std::uint64_t len;
    if (!in.get(&c)) return false;
    if (std::is_integral<T>::value) {
      if (c != 0xbc || !ref_dec_uint(in, 8, &len) || len != N * sizeof(T)) return false;
      for (std::size_t i = 0; i < N; i++) if (!ref_get_raw_any(in, &(*a)[i])) return false;
      return true;
    }
    if (c != 0xba || !ref_dec_uint(in, 8, &len) || len != N) return false;
    for (std::size_t i = 0; i < N; i++) if (!Meta<T>::dec(in, &(*a)[i])) return false;
    return true;
  }
  template <typename U> static std::enable_if_t<std::is_integral<U>::value> ref_put_raw_any(Out& o, const U& v) { ref_put_raw(o, v); }
  template <typename U> static std::enable_if_t<!std::is_integral<U>::value> ref_put_raw_any(Out&, const U&) {}
  template <typename U> static std::enable_if_t<std::is_integral<U>::value, bool> ref_get_raw_any(In& in, U* v) { return ref_get_raw(in, v); }
  template <typename U> static std::enable_if_t<!std::is_integral<U>::value, bool> ref_get_raw_any(In&, U*) { return false; }
};
template <typename T, std::size_t N> struct Meta<std::array<T, N>> : FixedSeq<T, N, std::array<T, N>> {};
template <typename T, std::size_t N> struct Meta<T[N]> : FixedSeq<T, N, T[N]> {};

template <typename T, typename A> struct Meta<std::vector<T, A>> {
  using V = std::vector<T, A>;
  static void draw(V* v) { v->clear(); v->resize(MetaCfg::heap_count); for (int i = 0; i < MetaCfg::heap_count; i++) Meta<T>::draw(&(*v)[i]); }
  static bool eq(const V& a, const V& b) { if (a.size() != b.size()) return false; for (std::size_t i = 0; i < a.size(); i++) if (!Meta<T>::eq(a[i], b[i])) return false; return true; }
  static void enc(const V& a, Out& o) {
    if (std::is_integral<T>::value) { o.put(0xbc); ref_enc_uint(o, a.size() * sizeof(T)); for (std::size_t i = 0; i < a.size(); i++) FixedSeq<T, 1, T[1]>::ref_put_raw_any(o, a[i]); }
    else { o.put(0xba); ref_enc_uint(o, a.size()); for (std::size_t i = 0; i < a.size(); i++) Meta<T>::enc(a[i], o); }
  }
  static bool dec(In& in, V* a) {
    std::uint8_t c; std::uint64_t len;
    if (!in.get(&c)) return false;
    a->clear();
    if (std::is_integral<T>::value) {
      if (c != 0xbc || !ref_dec_uint(in, 8, &len) || len % sizeof(T) != 0 || len > in.left()) return false;
      for (std::uint64_t i = 0; i < len / sizeof(T); i++) { T e; if (!FixedSeq<T, 1, T[1]>::ref_get_raw_any(in, &e)) return false; a->push_back(e); }
      return true;
    }
    if (c != 0xba || !ref_dec_uint(in, 8, &len)) return false;
    for (std::uint64_t i = 0; i < len; i++) { T e; if (!Meta<T>::dec(in, &e)) return false; a->push_back(e); }
    return true;
  }
};
template <typename C, typename Tr_, typename A> struct Meta<std::basic_string<C, Tr_, A>> {
  using S = std::basic_string<C, Tr_, A>;
  static void draw(S* v) { v->clear(); v->resize(MetaCfg::heap_count); for (int i = 0; i < MetaCfg::heap_count; i++) (*v)[i] = (C)DrawBits<sizeof(C)>::draw(); }
  static bool eq(const S& a, const S& b) { if (a.size() != b.size()) return false; for (std::size_t i = 0; i < a.size(); i++) if (a[i] != b[i]) return false; return true; }
  static void enc(const S& a, Out& o) { o.put(0xbd); ref_enc_uint(o, a.size() * sizeof(C)); for (std::size_t i = 0; i < a.size(); i++) ref_put_raw(o, a[i]); }
  static bool dec(In& in, S* a) {
    std::uint8_t c; std::uint64_t len;
    if (!in.get(&c) || c != 0xbd || !ref_dec_uint(in, 8, &len) || len % sizeof(C) != 0 || len > in.left()) return false;
    a->clear();
    for (std::uint64_t i = 0; i < len / sizeof(C); i++) { C e; if (!ref_get_raw(in, &e)) return false; a->push_back(e); }
    return true;
  }
};

template <typename A, typename B> struct Meta<std::pair<A, B>> {
  using P = std::pair<A, B>;
  static void draw(P* v) { Meta<A>::draw(&v->first); Meta<B>::draw(&v->second); }
  static bool eq(const P& a, const P& b) { return Meta<A>::eq(a.first, b.first) && Meta<B>::eq(a.second, b.second); }
  static void enc(const P& a, Out& o) { o.put(0xba); ref_enc_uint(o, 2); Meta<A>::enc(a.first, o); Meta<B>::enc(a.second, o); }
  static bool dec(In& in, P* a) { std::uint8_t c; std::uint64_t len; if (!in.get(&c) || c != 0xba || !ref_dec_uint(in, 8, &len) || len != 2) return false; return Meta<A>::dec(in, &a->first) && Meta<B>::dec(in, &a->second); }
};

template <typename... Ts> struct Meta<std::tuple<Ts...>> {
  using T = std::tuple<Ts...>;
  template <std::size_t I> using El = std::tuple_element_t<I, T>;
  static void draw_(T*, std::integral_constant<std::size_t, sizeof...(Ts)>) {}
  template <std::size_t I> static void draw_(T* v, std::integral_constant<std::size_t, I>) { Meta<El<I>>::draw(&std::get<I>(*v)); draw_(v, std::integral_constant<std::size_t, I + 1>{}); }
  static bool eq_(const T&, const T&, std::integral_constant<std::size_t, sizeof...(Ts)>) { return true; }
  template <std::size_t I> static bool eq_(const T& a, const T& b, std::integral_constant<std::size_t, I>) { return Meta<El<I>>::eq(std::get<I>(a), std::get<I>(b)) && eq_(a, b, std::integral_constant<std::size_t, I + 1>{}); }
  static void enc_(const T&, Out&, std::integral_constant<std::size_t, sizeof...(Ts)>) {}
  template <std::size_t I> static void enc_(const T& a, Out& o, std::integral_constant<std::size_t, I>) { Meta<El<I>>::enc(std::get<I>(a), o); enc_(a, o, std::integral_constant<std::size_t, I + 1>{}); }
  static bool dec_(In&, T*, std::integral_constant<std::size_t, sizeof...(Ts)>) { return true; }
  template <std::size_t I> static bool dec_(In& in, T* a, std::integral_constant<std::size_t, I>) { return Meta<El<I>>::dec(in, &std::get<I>(*a)) && dec_(in, a, std::integral_constant<std::size_t, I + 1>{}); }
  using Z = std::integral_constant<std::size_t, 0>;
  static void draw(T* v) { draw_(v, Z{}); }
  static bool eq(const T& a, const T& b) { return eq_(a, b, Z{}); }
  static void enc(const T& a, Out& o) { o.put(0xba); ref_enc_uint(o, sizeof...(Ts)); enc_(a, o, Z{}); }
  static bool dec(In& in, T* a) { std::uint8_t c; std::uint64_t len; if (!in.get(&c) || c != 0xba || !ref_dec_uint(in, 8, &len) || len != sizeof...(Ts)) return false; return dec_(in, a, Z{}); }
};

template <typename T> struct Meta<std::reference_wrapper<T>> {
  using R = std::reference_wrapper<T>;
  static void draw(R* v) { Meta<T>::draw(&v->get()); }
  static bool eq(const R& a, const R& b) { return Meta<T>::eq(a.get(), b.get()); }
  static void enc(const R& a, Out& o) { Meta<T>::enc(a.get(), o); }
  static bool dec(In& in, R* a) { return Meta<T>::dec(in, &a->get()); }
};

// ---------------------------------------------------------------- optional / result / variant
template <typename T> struct Meta<nop::Optional<T>> {
  using O = nop::Optional<T>;
  static void draw(O* v) { const bool has = ndbool(); T e; Meta<T>::draw(&e); if (has) *v = e; else v->clear(); }
  static bool eq(const O& a, const O& b) { if (a.empty() != b.empty()) return false; return a.empty() || Meta<T>::eq(a.get(), b.get()); }
  static void enc(const O& a, Out& o) { if (a.empty()) o.put(0xbe); else Meta<T>::enc(a.get(), o); }
  static bool dec(In& in, O* a) { std::uint8_t c; if (!in.peek(&c)) return false; if (c == 0xbe) { in.get(&c); a->clear(); return true; } T e; if (!Meta<T>::dec(in, &e)) return false; *a = e; return true; }
};
template <typename E, typename T> struct Meta<nop::Result<E, T>> {
  using R = nop::Result<E, T>;
  static void draw(R* v) { const std::uint8_t k = nd8(); E e; Meta<E>::draw(&e); T t; Meta<T>::draw(&t); if (k % 3 == 0) *v = E::None; else if (k % 3 == 1) *v = e; else *v = t; }
  static bool eq(const R& a, const R& b) { if (a.has_value() != b.has_value() || a.error() != b.error()) return false; return !a.has_value() || Meta<T>::eq(a.get(), b.get()); }
  static void enc(const R& a, Out& o) { if (a.has_value()) Meta<T>::enc(a.get(), o); else { o.put(0xb6); Meta<E>::enc(a.error(), o); } }
  static bool dec(In& in, R* a) { std::uint8_t c; if (!in.peek(&c)) return false; if (c == 0xb6) { in.get(&c); E e; if (!Meta<E>::dec(in, &e)) return false; *a = e; return true; } T t; if (!Meta<T>::dec(in, &t)) return false; *a = t; return true; }
};
template <typename... Ts> struct Meta<nop::Variant<Ts...>> {
  using V = nop::Variant<Ts...>;
  enum : int { N = sizeof...(Ts) };
  template <int I> using El = std::tuple_element_t<I, std::tuple<Ts...>>;
  template <int I> using IC = std::integral_constant<int, I>;
  static void draw_(V*, int, IC<N>) {}
  template <int I> static void draw_(V* v, int k, IC<I>) { El<I> e; Meta<El<I>>::draw(&e); if (k == I) *v = e; draw_(v, k, IC<I + 1>{}); }
  static bool eq_(const V&, const V&, IC<N>) { return true; }
  template <int I> static bool eq_(const V& a, const V& b, IC<I>) { if (a.index() == I) return Meta<El<I>>::eq(*a.template get<El<I>>(), *b.template get<El<I>>()); return eq_(a, b, IC<I + 1>{}); }
  static void enc_(const V&, Out&, IC<N>) {}
  template <int I> static void enc_(const V& a, Out& o, IC<I>) { if (a.index() == I) Meta<El<I>>::enc(*a.template get<El<I>>(), o); else enc_(a, o, IC<I + 1>{}); }
  static bool dec_(In&, V*, std::int64_t, IC<N>) { return false; }
  template <int I> static bool dec_(In& in, V* a, std::int64_t k, IC<I>) { if (k == I) { El<I> e; if (!Meta<El<I>>::dec(in, &e)) return false; *a = e; return true; } return dec_(in, a, k, IC<I + 1>{}); }
  static void draw(V* v) { const std::uint8_t k = nd8(); *v = nop::EmptyVariant{}; draw_(v, (int)(k % (N + 1)) - 1, IC<0>{}); }
  static bool eq(const V& a, const V& b) { if (a.index() != b.index()) return false; if (a.empty()) return true; return eq_(a, b, IC<0>{}); }
  static void enc(const V& a, Out& o) { o.put(0xb8); ref_enc_int(o, a.index()); if (a.empty()) o.put(0xbe); else enc_(a, o, IC<0>{}); }
  static bool dec(In& in, V* a) {
    std::uint8_t c; std::int64_t k;
    if (!in.get(&c) || c != 0xb8 || !ref_dec_int(in, 4, &k) || k < -1 || k >= N) return false;
    if (k == -1) { if (!in.get(&c) || c != 0xbe) return false; *a = nop::EmptyVariant{}; return true; }
    return dec_(in, a, k, IC<0>{});
  }
};

// ---------------------------------------------------------------- user-defined: structures, value wrappers, logical buffers, tables
// Field descriptors (declared next to each pool type in pool.h)
template <typename S, typename T, T S::*M> struct F {            // plain member
  static void draw(S* s) { Meta<T>::draw(&(s->*M)); }
  static bool eq(const S& a, const S& b) { return Meta<T>::eq(a.*M, b.*M); }
  static void enc(const S& a, Out& o) { Meta<T>::enc(a.*M, o); }
  static bool dec(In& in, S* a) { return Meta<T>::dec(in, &(a->*M)); }
};
// logical buffer pair (array member, size member): BIN for integral elements (byte length), ARY otherwise (element count)
template <typename S, typename Arr, typename T, std::size_t N, typename SizeT, Arr S::*D, SizeT S::*C> struct LB {
  static void draw(S* s) { FixedSeq<T, N, Arr>::draw(&(s->*D)); const std::uint8_t k = nd8(); s->*C = (SizeT)(k % (N + 1)); }
  static bool eq(const S& a, const S& b) { if (a.*C != b.*C) return false; for (std::size_t i = 0; i < (std::size_t)(a.*C) && i < N; i++) if (!Meta<T>::eq((a.*D)[i], (b.*D)[i])) return false; return true; }
  static void enc(const S& a, Out& o) {
    const std::uint64_t cnt = (std::uint64_t)(a.*C);
    if (std::is_integral<T>::value) { o.put(0xbc); ref_enc_uint(o, cnt * sizeof(T)); for (std::uint64_t i = 0; i < cnt && i < N; i++) FixedSeq<T, 1, T[1]>::ref_put_raw_any(o, (a.*D)[i]); }
    else { o.put(0xba); ref_enc_uint(o, cnt); for (std::uint64_t i = 0; i < cnt && i < N; i++) Meta<T>::enc((a.*D)[i], o); }
  }
  static bool dec(In& in, S* a) {
    std::uint8_t c; std::uint64_t len;
    if (!in.get(&c)) return false;
    if (std::is_integral<T>::value) {
      if (c != 0xbc || !ref_dec_uint(in, 8, &len) || len % sizeof(T) != 0 || len / sizeof(T) > N) return false;
      for (std::uint64_t i = 0; i < len / sizeof(T); i++) if (!FixedSeq<T, 1, T[1]>::ref_get_raw_any(in, &(a->*D)[i])) return false;
      a->*C = (SizeT)(len / sizeof(T)); return true;
    }
    if (c != 0xba || !ref_dec_uint(in, 8, &len) || len > N) return false;
    for (std::uint64_t i = 0; i < len; i++) if (!Meta<T>::dec(in, &(a->*D)[i])) return false;
    a->*C = (SizeT)len; return true;
  }
};
template <typename S, typename... Fs> struct MetaStruct {          // NOP_STRUCTURE: STU, member count, members
  static void draw(S* s) { int d[] = {0, (Fs::draw(s), 0)...}; (void)d; }
  static bool eq(const S& a, const S& b) { bool r = true; int d[] = {0, (r = r && Fs::eq(a, b), 0)...}; (void)d; return r; }
  static void enc(const S& a, Out& o) { o.put(0xb9); ref_enc_uint(o, sizeof...(Fs)); int d[] = {0, (Fs::enc(a, o), 0)...}; (void)d; }
  static bool dec(In& in, S* a) {
    std::uint8_t c; std::uint64_t len;
    if (!in.get(&c) || c != 0xb9 || !ref_dec_uint(in, 8, &len) || len != sizeof...(Fs)) return false;
    bool r = true; int d[] = {0, (r = r && Fs::dec(in, a), 0)...}; (void)d; return r;
  }
};
template <typename S, typename Fd> struct MetaValue {               // NOP_VALUE: encoded exactly as the wrapped member
  static void draw(S* s) { Fd::draw(s); }
  static bool eq(const S& a, const S& b) { return Fd::eq(a, b); }
  static void enc(const S& a, Out& o) { Fd::enc(a, o); }
  static bool dec(In& in, S* a) { return Fd::dec(in, a); }
};
// table entries: E<Table, T, Id, member> active, DEL<Id> deleted (never written, skipped on read)
template <typename S, typename T, std::uint64_t Id_, typename EntryT, EntryT S::*M> struct E {
  enum : std::uint64_t { Id = Id_ }; enum : bool { Active = true };
  static void draw(S* s) { const bool has = ndbool(); T e; Meta<T>::draw(&e); if (has) (s->*M) = e; else (s->*M).clear(); }
  static bool eq(const S& a, const S& b) { if ((a.*M).empty() != (b.*M).empty()) return false; return (a.*M).empty() || Meta<T>::eq((a.*M).get(), (b.*M).get()); }
  static bool present(const S& a) { return !(a.*M).empty(); }
  static void clear(S* a) { (a->*M).clear(); }
  static void enc(const S& a, Out& o) {
    if ((a.*M).empty()) return;
    ref_enc_uint(o, Id_);
    Out tmp(nullptr, 0); Meta<T>::enc((a.*M).get(), tmp);          // size of the value
    ref_enc_uint(o, tmp.n); Meta<T>::enc((a.*M).get(), o);
  }
  // payload of exactly `size` bytes: value, then any padding
  static bool dec_payload(In& in, S* a, std::uint64_t size) {
    if (!(a->*M).empty()) return false;                             // duplicate id
    if (size > in.left()) return false;
    In sub(in.p + in.pos, (std::size_t)size);
    T e; if (!Meta<T>::dec(sub, &e)) return false;
    (a->*M) = e; in.pos += (std::size_t)size; return true;
  }
};
template <typename S, std::uint64_t Id_> struct DEL {
  enum : std::uint64_t { Id = Id_ }; enum : bool { Active = false };
  static void draw(S*) {}
  static bool eq(const S&, const S&) { return true; }
  static bool present(const S&) { return false; }
  static void clear(S*) {}
  static void enc(const S&, Out&) {}
  static bool dec_payload(In& in, S*, std::uint64_t size) { if (size > in.left()) return false; in.pos += (std::size_t)size; return true; }
};
template <typename S, std::uint64_t Hash, typename... Es> struct MetaTable {
  static void draw(S* s) { int d[] = {0, (Es::draw(s), 0)...}; (void)d; }
  static bool eq(const S& a, const S& b) { bool r = true; int d[] = {0, (r = r && Es::eq(a, b), 0)...}; (void)d; return r; }
  static void enc(const S& a, Out& o) {
    o.put(0xb5); ref_enc_uint(o, Hash);
    std::uint64_t cnt = 0; int c[] = {0, (cnt += Es::present(a) ? 1 : 0, 0)...}; (void)c;
    ref_enc_uint(o, cnt);
    int d[] = {0, (Es::enc(a, o), 0)...}; (void)d;
  }
  static bool dec(In& in, S* a) {
    std::uint8_t c; std::uint64_t hash, cnt;
    if (!in.get(&c) || c != 0xb5 || !ref_dec_uint(in, 8, &hash) || hash != Hash || !ref_dec_uint(in, 8, &cnt)) return false;
    int cl[] = {0, (Es::clear(a), 0)...}; (void)cl;
    for (std::uint64_t i = 0; i < cnt; i++) {
      std::uint64_t id, size;
      if (!ref_dec_uint(in, 8, &id) || !ref_dec_uint(in, 8, &size)) return false;
      bool known = false, ok = true;
      int d[] = {0, ((!known && Es::Id == id) ? (known = true, ok = Es::dec_payload(in, a, size), 0) : 0)...}; (void)d;
      if (!known) { if (size > in.left()) return false; in.pos += (std::size_t)size; }
      else if (!ok) return false;
    }
    return true;
  }
};

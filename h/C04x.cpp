// C04 (error categories): a symbolic valid value is encoded by the reference encoder with exactly ONE injected defect
// at an enumerated site; the status returned by the library must be the category named for that defect.
//@tu unwind=12 memunwind=60 loop:LogicalBuffer=6 loop:ReadEntries=4 loop:lb_defect=24
#include "rd.h"
#include "nested_types.h"
using nop::ErrorStatus;
template <typename T> static ErrorStatus decode(const std::uint8_t* p, std::size_t n) { T o; Meta<T>::draw(&o); Rd<PBR> r(p, n); auto st = r.read(&o); return st ? ErrorStatus::None : st.error(); }
static std::uint8_t bad_prefix() { const std::uint8_t b = nd8(); vassume(b >= 0x8a && b <= 0xb4); return b; }   // any reserved prefix

// structure S1 {array<u8,3> a; Optional<u16> b; E8 c}
template <int SITE> static void s1_defect() {
  S1 v; Meta<S1>::draw(&v); const std::uint8_t bp = bad_prefix(); const std::uint8_t cnt = nd8(); const std::uint8_t len = nd8();
  std::uint8_t buf[24] = {}; Out o(buf, sizeof buf);
  o.put(SITE == 0 ? bp : 0xb9);                                         // 0: structure prefix
  vassume(cnt != 3 && cnt < 0x80); ref_enc_uint(o, SITE == 1 ? cnt : 3); // 1: member count
  o.put(SITE == 2 ? 0xba : 0xbc);                                       // 2: integral array must be BIN, ARY given
  vassume(len != 3 && len < 0x80); ref_enc_uint(o, SITE == 3 ? len : 3); // 3: fixed array byte length
  for (int i = 0; i < 3; i++) o.put(v.a[i]);
  if (SITE == 4) { o.put(0x82); ref_put_le(o, 70000, 4); }              // 4: integer class wider than the u16 destination
  else Meta<nop::Optional<u16>>::enc(v.b, o);
  if (SITE == 5) { o.put(0x84); o.put(0xff); }                          // 5: signed class for an unsigned (enum over u8) member
  else Meta<E8>::enc(v.c, o);
  vassume(o.fits());
  std::size_t n = o.n; if (SITE == 6) { const std::uint8_t k = nd8(); vassume(k < o.n); n = k; }   // 6: truncation
  const ErrorStatus e = decode<S1>(buf, n);
  switch (SITE) {
    case 0: case 2: case 4: case 5: vassert(e == ErrorStatus::UnexpectedEncodingType, 1); break;
    case 1: vassert(e == ErrorStatus::InvalidMemberCount, 2); break;
    case 3: vassert(e == ErrorStatus::InvalidContainerLength, 3); break;
    default: vassert(e == ErrorStatus::ReadLimitReached, 4); break;
  }
  vrt_end();
}
// tuple<i8,bool,u16>, pair<u8,i16>, std::array<S0,2>: element counts
template <int SITE> static void count_defect() {
  const std::uint8_t cnt = nd8(); vassume(cnt < 0x80);
  std::uint8_t buf[32] = {}; Out o(buf, sizeof buf); ErrorStatus e = ErrorStatus::None;
  if (SITE == 0) { std::tuple<i8, bool, u16> v; Meta<decltype(v)>::draw(&v); vassume(cnt != 3); o.put(0xba); ref_enc_uint(o, cnt); Meta<i8>::enc(std::get<0>(v), o); Meta<bool>::enc(std::get<1>(v), o); Meta<u16>::enc(std::get<2>(v), o); e = decode<std::tuple<i8, bool, u16>>(buf, o.n); }
  else if (SITE == 1) { std::pair<u8, i16> v; Meta<decltype(v)>::draw(&v); vassume(cnt != 2); o.put(0xba); ref_enc_uint(o, cnt); Meta<u8>::enc(v.first, o); Meta<i16>::enc(v.second, o); e = decode<std::pair<u8, i16>>(buf, o.n); }
  else { std::array<S0, 2> v; Meta<decltype(v)>::draw(&v); vassume(cnt != 2); o.put(0xba); ref_enc_uint(o, cnt); Meta<S0>::enc(v[0], o); Meta<S0>::enc(v[1], o); e = decode<std::array<S0, 2>>(buf, o.n); }
  vassume(o.fits());
  vassert(e == ErrorStatus::InvalidContainerLength, 1);
  vrt_end();
}
// logical buffers: length above capacity, byte length not a multiple of the element size
template <int SITE> static void lb_defect() {
  LB2 v; Meta<LB2>::draw(&v); const std::uint8_t len = nd8();
  std::uint8_t buf[32] = {}; Out o(buf, sizeof buf);
  o.put(0xb9); ref_enc_uint(o, 2); o.put(0xbc);
  if (SITE == 0) { vassume(len > 6 && len < 0x80 && len % 2 == 0); }          // above the capacity of 3 u16 elements
  else { vassume(len < 6 && len % 2 == 1); }                                  // odd byte length for u16 elements
  ref_enc_uint(o, len); for (int i = 0; i < len && i < 20; i++) o.put(0x11);
  Meta<u8>::enc(v.tail, o);
  vassume(o.fits());
  vassert(decode<LB2>(buf, o.n) == ErrorStatus::InvalidContainerLength, 1);
  vrt_end();
}
static void lb_ary_defect() {                                                 // non-integral elements: element count above capacity
  const std::uint8_t cnt = nd8(); vassume(cnt > 2 && cnt < 0x80);
  std::uint8_t buf[8] = {}; Out o(buf, sizeof buf); o.put(0xb9); ref_enc_uint(o, 1); o.put(0xba); ref_enc_uint(o, cnt);
  vassert(decode<LB3>(buf, o.n) == ErrorStatus::InvalidContainerLength, 1);
  vrt_end();
}
// variant index out of range, wrong element for the index
static void variant_defect() {
  const std::int32_t idx = (std::int32_t)nd32(); vassume(idx < -1 || idx >= 2);
  std::uint8_t buf[12] = {}; Out o(buf, sizeof buf); o.put(0xb8); ref_enc_int(o, idx); o.put(0x05);
  vassert(decode<nop::Variant<u8, i32>>(buf, o.n) == ErrorStatus::UnexpectedVariantType, 1);
  std::uint8_t b2[4] = {0xb8, 0xff, 0x05, 0};                                 // empty index but a value instead of NIL
  vassert(decode<nop::Variant<u8, i32>>(b2, 3) == ErrorStatus::UnexpectedEncodingType, 2);
  vrt_end();
}
// scalars: every prefix that is not in the destination's class set
template <typename T> static void scalar_prefix_defect() {
  const std::uint8_t p = nd8(); std::uint8_t buf[9] = {}; buf[0] = p; for (int i = 1; i < 9; i++) buf[i] = nd8();
  In in(buf, 9); T ref; const bool ok = Meta<T>::dec(in, &ref);
  const ErrorStatus e = decode<T>(buf, 9);
  vassert((e == ErrorStatus::None) == ok, 1);
  if (!ok) vassert(e == ErrorStatus::UnexpectedEncodingType, 2);               // 9 bytes are always enough payload: the only possible defect is the prefix
  vrt_end();
}
#define D(name, call) extern "C" void hq_defect_##name(void) { call; }
D(s1_prefix, s1_defect<0>()) D(s1_count, s1_defect<1>()) D(s1_bin_as_ary, s1_defect<2>()) D(s1_array_len, s1_defect<3>()) D(s1_wide_class, s1_defect<4>()) D(s1_signedness, s1_defect<5>()) D(s1_truncated, s1_defect<6>())
D(tuple_count, count_defect<0>()) D(pair_count, count_defect<1>()) D(array_count, count_defect<2>())
D(lb_capacity, lb_defect<0>()) D(lb_multiple, lb_defect<1>()) D(lb_ary_capacity, lb_ary_defect()) D(variant, variant_defect())
D(prefix_u16, scalar_prefix_defect<u16>()) D(prefix_i32, scalar_prefix_defect<i32>()) D(prefix_bool, scalar_prefix_defect<bool>()) D(prefix_float, scalar_prefix_defect<float>()) D(prefix_E8, scalar_prefix_defect<E8>()) D(prefix_u64, scalar_prefix_defect<u64>()) D(prefix_char, scalar_prefix_defect<char>())

// A valid encoding that makes the decoder SKIP inside a nested frame (the inner table carries an entry that the reading
// definition lacks / has deleted): it must be accepted, yield the values the bytes denote and consume exactly the encoding
// (two further bytes follow).  Bytes are laid out by hand from docs/format.md.
template <typename RT>
static void nested_skip_accept() {
  const bool va = ndbool(), vx = ndbool(); float vb; Meta<float>::draw(&vb); const u8 trailer = nd8();
  std::uint8_t buf[32] = {}; Out o(buf, sizeof buf);
  o.put(0xb5); ref_enc_uint(o, 0x62); ref_enc_uint(o, 2);
  ref_enc_uint(o, 1); ref_enc_uint(o, 13);                                        // outer entry 1: the inner table, 13 bytes
  o.put(0xb5); ref_enc_uint(o, 0x61); ref_enc_uint(o, 2);
  ref_enc_uint(o, 1); ref_enc_uint(o, 1); Meta<bool>::enc(va, o);                 //   inner entry 1: bool
  ref_enc_uint(o, 2); ref_enc_uint(o, 5); Meta<float>::enc(vb, o);                //   inner entry 2: float (unknown to ORl, known to ORd)
  ref_enc_uint(o, 2); ref_enc_uint(o, 1); Meta<bool>::enc(vx, o);                 // outer entry 2: bool
  const std::size_t n = o.n; o.put(trailer); o.put(trailer);
  vassume(o.fits()); vassert(n == 21, 8);
  RT r; Meta<RT>::draw(&r);
  Rd<PBR> rd(buf, o.n); auto st = rd.read(&r);
  vassert(!!st, 1);
  vassert(rd.consumed() == n, 2);
  vassert(!r.x.empty() && r.x.get() == vx && !r.in.empty(), 3);
  vrt_observe(rd.consumed());
  vrt_end();
}
//@h nested_skip_accept : loop:ReadEntries=3 timeout=900
extern "C" void hq_nested_skip_accept_lack(void) { nested_skip_accept<ORl>(); }
extern "C" void ht_nested_skip_accept_deleted(void) { nested_skip_accept<ORd>(); }

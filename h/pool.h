// Type pool: ordinary declarations with the real libnop macros + the field
// descriptors that drive Meta<T> (draw / eq / reference enc / reference dec).
#pragma once
#include "meta.h"
#include <nop/structure.h>
#include <nop/table.h>
#include <nop/value.h>

using u8 = std::uint8_t; using u16 = std::uint16_t; using u32 = std::uint32_t; using u64 = std::uint64_t;
using i8 = std::int8_t; using i16 = std::int16_t; using i32 = std::int32_t; using i64 = std::int64_t;

enum E8 : std::uint8_t { E8_A = 0, E8_B = 1, E8_C = 200 };
enum class E32 : std::int32_t { None = 0, A = 1, B = -5, C = 70000 };
enum EU64 : std::uint64_t { EU64_A = 0, EU64_B = 0x100000000ULL };
enum class Err : std::int32_t { None = 0, A = 1, B = 2, C = 300 };

struct S0 { u32 a; i16 b; NOP_STRUCTURE(S0, a, b); };
template <> struct Meta<S0> : MetaStruct<S0, F<S0, u32, &S0::a>, F<S0, i16, &S0::b>> {};

struct S1 { std::array<u8, 3> a; nop::Optional<u16> b; E8 c; NOP_STRUCTURE(S1, a, b, c); };
template <> struct Meta<S1> : MetaStruct<S1, F<S1, std::array<u8, 3>, &S1::a>, F<S1, nop::Optional<u16>, &S1::b>, F<S1, E8, &S1::c>> {};

struct S2 { S0 s; std::pair<u8, i16> p; NOP_STRUCTURE(S2, s, p); };
template <> struct Meta<S2> : MetaStruct<S2, F<S2, S0, &S2::s>, F<S2, std::pair<u8, i16>, &S2::p>> {};

struct S4 { u8 d[4]; i64 x; NOP_STRUCTURE(S4, d, x); };                       // C array member
using U8x4 = u8[4];
template <> struct Meta<S4> : MetaStruct<S4, F<S4, U8x4, &S4::d>, F<S4, i64, &S4::x>> {};

struct S5 { S0 d[2]; bool f; NOP_STRUCTURE(S5, d, f); };                      // C array of non-integral elements
using S0x2 = S0[2];
template <> struct Meta<S5> : MetaStruct<S5, F<S5, S0x2, &S5::d>, F<S5, bool, &S5::f>> {};

struct SE { NOP_STRUCTURE(SE); };                                             // structure without members
template <> struct Meta<SE> : MetaStruct<SE> {};

struct W32 { u32 v; NOP_VALUE(W32, v); };                                      // value wrappers
template <> struct Meta<W32> : MetaValue<W32, F<W32, u32, &W32::v>> {};
struct WS { S0 v; NOP_VALUE(WS, v); };
template <> struct Meta<WS> : MetaValue<WS, F<WS, S0, &WS::v>> {};

// logical buffers (array + size member grouped in parentheses)
struct LB1 { u8 d[4]; std::size_t n; NOP_STRUCTURE(LB1, (d, n)); };
template <> struct Meta<LB1> : MetaStruct<LB1, LB<LB1, U8x4, u8, 4, std::size_t, &LB1::d, &LB1::n>> {};
struct LB2 { std::array<u16, 3> d; u8 n; u8 tail; NOP_STRUCTURE(LB2, (d, n), tail); };
template <> struct Meta<LB2> : MetaStruct<LB2, LB<LB2, std::array<u16, 3>, u16, 3, u8, &LB2::d, &LB2::n>, F<LB2, u8, &LB2::tail>> {};
struct LB3 { std::array<S0, 2> d; u32 n; NOP_STRUCTURE(LB3, (d, n)); };
template <> struct Meta<LB3> : MetaStruct<LB3, LB<LB3, std::array<S0, 2>, S0, 2, u32, &LB3::d, &LB3::n>> {};
struct LB4 { std::array<u8, 4> d; int n; NOP_STRUCTURE(LB4, (d, n)); };        // signed size member
template <> struct Meta<LB4> : MetaStruct<LB4, LB<LB4, std::array<u8, 4>, u8, 4, int, &LB4::d, &LB4::n>> {};
struct LB5 { std::array<u64, 32> d; u8 n; NOP_STRUCTURE(LB5, (d, n)); };       // byte length 256 does not fit the u8 size member
template <> struct Meta<LB5> : MetaStruct<LB5, LB<LB5, std::array<u64, 32>, u64, 32, u8, &LB5::d, &LB5::n>> {};
struct LB6 { std::array<u8, 130> d; i16 n; NOP_STRUCTURE(LB6, (d, n)); };      // count 128..130 crosses the POS/U8 class boundary with a signed member
template <> struct Meta<LB6> : MetaStruct<LB6, LB<LB6, std::array<u8, 130>, u8, 130, i16, &LB6::d, &LB6::n>> {};
struct LBV { u16 d[3]; u8 n; NOP_VALUE(LBV, (d, n)); };                        // value wrapper around a logical buffer
using U16x3 = u16[3];
template <> struct Meta<LBV> : MetaValue<LBV, LB<LBV, U16x3, u16, 3, u8, &LBV::d, &LBV::n>> {};

// tables (explicit numeric hashes so that the reference codec does not depend on SipHash; C18 covers hashing)
struct T1 { nop::Entry<u32, 1> a; nop::Entry<S0, 2> b; NOP_TABLE_HASH(0x7b, T1, a, b); };
template <> struct Meta<T1> : MetaTable<T1, 0x7b, E<T1, u32, 1, nop::Entry<u32, 1>, &T1::a>, E<T1, S0, 2, nop::Entry<S0, 2>, &T1::b>> {};
struct T2 {
  nop::Entry<std::array<u8, 3>, 3> c; nop::Entry<u8, 9, nop::DeletedEntry> gone; nop::Entry<nop::Optional<u16>, 200> o;
  NOP_TABLE_HASH(0xabcdef0123456789ULL, T2, c, gone, o);
};
template <> struct Meta<T2> : MetaTable<T2, 0xabcdef0123456789ULL, E<T2, std::array<u8, 3>, 3, nop::Entry<std::array<u8, 3>, 3>, &T2::c>, DEL<T2, 9>,
                                        E<T2, nop::Optional<u16>, 200, nop::Entry<nop::Optional<u16>, 200>, &T2::o>> {};
struct T3 { nop::Entry<T1, 1> inner; nop::Entry<i8, 2> x; NOP_TABLE(T3, inner, x); };                 // table nested in a table entry, hash 0
template <> struct Meta<T3> : MetaTable<T3, 0, E<T3, T1, 1, nop::Entry<T1, 1>, &T3::inner>, E<T3, i8, 2, nop::Entry<i8, 2>, &T3::x>> {};
struct ST { u8 pre; T1 t; u8 post; NOP_STRUCTURE(ST, pre, t, post); };                                  // table inside a structure, followed by data
template <> struct Meta<ST> : MetaStruct<ST, F<ST, u8, &ST::pre>, F<ST, T1, &ST::t>, F<ST, u8, &ST::post>> {};

// buffer capacity that is certainly enough for the encodings of the pool (LB5/LB6 need more; see their harnesses)
template <typename T> struct Cap { enum : std::size_t { value = 28 }; };   // largest core encoding: S5 = 25 bytes
template <> struct Cap<T3> { enum : std::size_t { value = 36 }; };
template <> struct Cap<LB5> { enum : std::size_t { value = 280 }; };
template <> struct Cap<LB6> { enum : std::size_t { value = 150 }; };

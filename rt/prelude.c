/* CBMC-side environment: every external symbol of a translated harness TU is
 * renamed X_<name> by the translator and must be defined here (an undefined
 * one makes CBMC report "no body", which the runner treats as a broken check).
 * Every stub is part of the claim and is listed in the evidence.
 *
 * -DVRT_ARENA=<bytes>  operator new/delete from a static bump arena (functional
 *                      harnesses over std::vector/std::string: CBMC's malloc
 *                      makes growth sizes symbolic and the formula explodes);
 *                      default: CBMC malloc, assumed non-NULL (allocation
 *                      failure is outside every property). */
#include <stdint.h>
#include <stddef.h>
#include <stdlib.h>

uint64_t nondet_u64(void); uint32_t nondet_u32(void); uint16_t nondet_u16(void); uint8_t nondet_u8(void);
uint64_t __undef_u64(void){ return nondet_u64(); }
/* every drawn input is recorded with its position: the counterexample tape is
 * read off the assignments to vrt_tape[] in CBMC's trace (these assignments are
 * sliced away in the deciding runs and cost nothing there). */
#define VRT_TAPE_MAX 512
uint64_t vrt_tape[VRT_TAPE_MAX]; uint32_t vrt_tape_n = 0;
static void vrt_rec(uint64_t v){ if (vrt_tape_n < VRT_TAPE_MAX) vrt_tape[vrt_tape_n] = v; vrt_tape_n++; }
uint8_t X_nondet_u8(void){ uint8_t v = nondet_u8(); vrt_rec(v); return v; }
uint16_t X_nondet_u16(void){ uint16_t v = nondet_u16(); vrt_rec(v); return v; }
uint32_t X_nondet_u32(void){ uint32_t v = nondet_u32(); vrt_rec(v); return v; }
uint64_t X_nondet_u64(void){ uint64_t v = nondet_u64(); vrt_rec(v); return v; }
void X_vrt_end(void){ __CPROVER_assert(0, "witness"); }
void X_vrt_observe(uint64_t v){ (void)v; }

static uint64_t vrt_live_blocks = 0, vrt_live_bytes = 0, vrt_peak_bytes = 0;
uint64_t X_vrt_alloc_live_blocks(void){ return vrt_live_blocks; }
uint64_t X_vrt_alloc_live_bytes(void){ return vrt_live_bytes; }
uint64_t X_vrt_alloc_peak_bytes(void){ return vrt_peak_bytes; }
static void vrt_account_new(uint64_t n){ vrt_live_blocks++; vrt_live_bytes += n; if (vrt_live_bytes > vrt_peak_bytes) vrt_peak_bytes = vrt_live_bytes; }

#ifdef VRT_ARENA
/* block layout: [8-byte size header][payload rounded to 16]; freed blocks are
 * never reused (no aliasing between an old and a new block), double free and
 * foreign pointers are assertion failures. */
static uint8_t vrt_arena[VRT_ARENA] __attribute__((aligned(16)));
static uint64_t vrt_arena_off = 0;
uint8_t* X__Znwm(uint64_t n){
  uint64_t o = vrt_arena_off;
  __CPROVER_assert(n <= VRT_ARENA && o + 16 + n <= VRT_ARENA, "arena exhausted (allocation larger than the harness bound)");
  __CPROVER_assume(n <= VRT_ARENA && o + 16 + n <= VRT_ARENA);
  *(uint64_t*)&vrt_arena[o] = n; *(uint64_t*)&vrt_arena[o + 8] = 0xA11C0DEDULL;
  vrt_arena_off = o + 16 + ((n + 15) & ~15ULL);
  vrt_account_new(n);
  return &vrt_arena[o + 16];
}
void X__ZdlPv(uint8_t* p){
  if (!p) return;
  __CPROVER_assert(__CPROVER_POINTER_OBJECT(p) == __CPROVER_POINTER_OBJECT(vrt_arena), "delete of a pointer not from operator new");
  uint64_t* h = (uint64_t*)(p - 16);
  __CPROVER_assert(h[1] == 0xA11C0DEDULL, "double delete or delete of interior pointer");
  h[1] = 0xDEADULL; vrt_live_blocks--; vrt_live_bytes -= h[0];
}
#else
uint8_t* X__Znwm(uint64_t n){
  uint8_t* p = malloc(n); __CPROVER_assume(p != 0);
  vrt_account_new(n);
  return p;
}
void X__ZdlPv(uint8_t* p){
  if (!p) return;
  vrt_live_blocks--; vrt_live_bytes -= __CPROVER_OBJECT_SIZE(p);
  free(p);
}
#endif
void X__ZdlPvm(uint8_t* p, uint64_t n){ (void)n; X__ZdlPv(p); }
uint8_t* X__Znam(uint64_t n){ return X__Znwm(n); }
void X__ZdaPv(uint8_t* p){ X__ZdlPv(p); }

static void vrt_die(void){ __CPROVER_assert(0, "abort/throw reached"); __CPROVER_assume(0); }
void X__ZSt20__throw_length_errorPKc(uint8_t* m){ (void)m; vrt_die(); }
void X__ZSt19__throw_logic_errorPKc(uint8_t* m){ (void)m; vrt_die(); }
void X__ZSt24__throw_out_of_range_fmtPKcz(uint8_t* m, ...){ (void)m; vrt_die(); }
void X__ZSt28__throw_bad_array_new_lengthv(void){ vrt_die(); }
void X__ZSt17__throw_bad_allocv(void){ vrt_die(); }
void X__ZSt25__throw_bad_function_callv(void){ vrt_die(); }
void X_abort(void){ vrt_die(); }
void X__ZSt9terminatev(void){ vrt_die(); }
void X___cxa_pure_virtual(void){ vrt_die(); }
void X___assert_fail(uint8_t* a, uint8_t* b, uint32_t c, uint8_t* d){ (void)a; (void)b; (void)c; (void)d; vrt_die(); }

uint32_t X_bcmp(uint8_t* a, uint8_t* b, uint64_t n){ for (uint64_t i = 0; i < n; i++) if (a[i] != b[i]) return 1; return 0; }
uint32_t X_memcmp(uint8_t* a, uint8_t* b, uint64_t n){ for (uint64_t i = 0; i < n; i++) if (a[i] != b[i]) return a[i] < b[i] ? (uint32_t)-1 : 1; return 0; }
uint64_t X_strlen(uint8_t* a){ uint64_t n = 0; while (a[n]) n++; return n; }
uint8_t* X_memchr(uint8_t* a, uint32_t c, uint64_t n){ for (uint64_t i = 0; i < n; i++) if (a[i] == (uint8_t)c) return a + i; return 0; }
uint8_t* X_memcpy(uint8_t* d, uint8_t* s, uint64_t n){ for (uint64_t i = 0; i < n; i++) d[i] = s[i]; return d; }
uint8_t* X_memset(uint8_t* d, uint32_t v, uint64_t n){ for (uint64_t i = 0; i < n; i++) d[i] = (uint8_t)v; return d; }
uint8_t* X_memmove(uint8_t* d, uint8_t* s, uint64_t n){ if (__CPROVER_POINTER_OBJECT(d) != __CPROVER_POINTER_OBJECT(s) || d <= s) { for (uint64_t i = 0; i < n; i++) d[i] = s[i]; } else { for (uint64_t i = n; i > 0; i--) d[i-1] = s[i-1]; } return d; }
static uint32_t vrt_errno = 0;
uint32_t* X___errno_location(void){ return &vrt_errno; }

/* namespace-scope objects with destructors: registration is a no-op (harness processes never run exit handlers that matter) */
uint8_t G___dso_handle = 0;
uint32_t X___cxa_atexit(void* f, uint8_t* o, uint8_t* d){ (void)f; (void)o; (void)d; return 0; }

/* function-local statics with dynamic initialisation (sequential model): the guard's first byte says "initialised" */
uint32_t X___cxa_guard_acquire(uint64_t* g){ return *(uint8_t*)g == 0; }
void X___cxa_guard_release(uint64_t* g){ *(uint8_t*)g = 1; }
void X___cxa_guard_abort(uint64_t* g){ (void)g; }

// Harness-side API shared by every harness TU.  The same TU is
//  (a) lowered to LLVM IR, translated to C and decided by CBMC, where the
//      functions below are CBMC primitives (rt/prelude.c), and
//  (b) compiled natively with g++ (rt/native.cpp), where nondet_* read an
//      input tape: used for the differential validation of the translator and
//      for replaying solver counterexamples against the real headers.
#pragma once
#include <array>
#include <limits>
#include <cstring>
#include <type_traits>
#include <cstddef>
#include <cstdint>
extern "C" {
std::uint8_t nondet_u8(void);
std::uint16_t nondet_u16(void);
std::uint32_t nondet_u32(void);
std::uint64_t nondet_u64(void);
// Property assertion; `id` must be an integer literal (the translator inlines
// every call site as a separately reported CBMC property "vassert#<id>").
void vassert(int cond, int id);
// Harness precondition / stated bound.  Must precede the code it constrains.
void vassume(int cond);
// Reachability witness: every harness calls this as its last statement.  Under
// CBMC it is an assertion that must FAIL (otherwise the harness is vacuous).
void vrt_end(void);
// A value that the differential run compares between the native C++ build and
// the gcc build of the translated C.
void vrt_observe(std::uint64_t v);
// Allocation accounting kept by the operator new/delete stubs.
std::uint64_t vrt_alloc_live_blocks(void);
std::uint64_t vrt_alloc_live_bytes(void);
std::uint64_t vrt_alloc_peak_bytes(void);
// Simulated threads (C19): runs fn(arg) as thread `thread` (0..2).  CBMC / generated C: the contents of all
// thread_local globals are swapped around the call; native C++: fn runs on one of three real std::threads,
// strictly one at a time.
void vrt_run_on(std::uint32_t thread, void (*fn)(void*), void* arg);
}

#define VRT_CAT_(a, b) a##b
#define VRT_CAT(a, b) VRT_CAT_(a, b)

static inline std::uint8_t nd8() { return nondet_u8(); }
static inline std::uint16_t nd16() { return nondet_u16(); }
static inline std::uint32_t nd32() { return nondet_u32(); }
static inline std::uint64_t nd64() { return nondet_u64(); }
static inline bool ndbool() { return (nondet_u8() & 1) != 0; }

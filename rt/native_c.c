/* Native environment for the gcc build of a translated harness TU (used only
 * for the differential validation of the translator, never for a verdict).
 * Mirrors rt/native.cpp: same tape, same log format. */
#define _GNU_SOURCE
#include <stdint.h>
#include <stdio.h>
#include <stdlib.h>
#include <string.h>
#include <dlfcn.h>

static uint64_t tape[4096]; static size_t tape_n = 0, tape_pos = 0; static int failures = 0;
static uint64_t next(void){ return tape_pos < tape_n ? tape[tape_pos++] : 0; }
uint64_t __undef_u64(void){ return 0; }
uint8_t X_nondet_u8(void){ return (uint8_t)next(); }
uint16_t X_nondet_u16(void){ return (uint16_t)next(); }
uint32_t X_nondet_u32(void){ return (uint32_t)next(); }
uint64_t X_nondet_u64(void){ return next(); }
void vrt_native_assert(int c, int id){ printf("A %d %s\n", id, c ? "ok" : "FAIL"); if (!c) failures++; }
void vrt_native_assume(int c){ if (!c) { printf("ASSUME-STOP\n"); fflush(stdout); _Exit(0); } }
void vrt_native_ub(const char* m){ printf("UB %s\n", m); fflush(stdout); _Exit(4); }
void X_vrt_end(void){ printf("END\n"); }
void X_vrt_observe(uint64_t v){ printf("O %llu\n", (unsigned long long)v); }

static uint64_t live_blocks = 0, live_bytes = 0, peak_bytes = 0;
uint64_t X_vrt_alloc_live_blocks(void){ return live_blocks; }
uint64_t X_vrt_alloc_live_bytes(void){ return live_bytes; }
uint64_t X_vrt_alloc_peak_bytes(void){ return peak_bytes; }
uint8_t* X__Znwm(uint64_t n){ uint8_t* p = malloc(n + 16); if (!p) abort(); *(uint64_t*)p = n; live_blocks++; live_bytes += n; if (live_bytes > peak_bytes) peak_bytes = live_bytes; return p + 16; }
void X__ZdlPv(uint8_t* p){ if (!p) return; live_blocks--; live_bytes -= *(uint64_t*)(p - 16); free(p - 16); }
void X__ZdlPvm(uint8_t* p, uint64_t n){ (void)n; X__ZdlPv(p); }
uint8_t* X__Znam(uint64_t n){ return X__Znwm(n); }
void X__ZdaPv(uint8_t* p){ X__ZdlPv(p); }

static void die(const char* w){ printf("DIE %s\n", w); fflush(stdout); _Exit(5); }
void X__ZSt20__throw_length_errorPKc(uint8_t* m){ (void)m; die("throw"); }
void X__ZSt19__throw_logic_errorPKc(uint8_t* m){ (void)m; die("throw"); }
void X__ZSt24__throw_out_of_range_fmtPKcz(uint8_t* m, ...){ (void)m; die("throw"); }
void X__ZSt28__throw_bad_array_new_lengthv(void){ die("throw"); }
void X__ZSt17__throw_bad_allocv(void){ die("throw"); }
void X__ZSt25__throw_bad_function_callv(void){ die("throw"); }
void X_abort(void){ die("abort"); }
void X__ZSt9terminatev(void){ die("abort"); }
void X___cxa_pure_virtual(void){ die("abort"); }
void X___assert_fail(uint8_t* a, uint8_t* b, uint32_t c, uint8_t* d){ (void)a; (void)b; (void)c; (void)d; die("abort"); }
uint32_t X_bcmp(uint8_t* a, uint8_t* b, uint64_t n){ return memcmp(a, b, n) != 0; }
uint32_t X_memcmp(uint8_t* a, uint8_t* b, uint64_t n){ int r = memcmp(a, b, n); return r < 0 ? (uint32_t)-1 : r > 0 ? 1 : 0; }
uint64_t X_strlen(uint8_t* a){ return strlen((char*)a); }
uint8_t* X_memchr(uint8_t* a, uint32_t c, uint64_t n){ return memchr(a, (int)c, n); }

uint8_t* X_memcpy(uint8_t* d, uint8_t* s, uint64_t n){ return memcpy(d, s, n); }
uint8_t* X_memset(uint8_t* d, uint32_t v, uint64_t n){ return memset(d, (int)v, n); }
uint8_t* X_memmove(uint8_t* d, uint8_t* s, uint64_t n){ return memmove(d, s, n); }

#include <errno.h>
uint32_t* X___errno_location(void){ return (uint32_t*)&errno; }

int main(int argc, char** argv){
  if (argc < 3) return 2;
  void (*h)(void) = (void (*)(void))dlsym(RTLD_DEFAULT, argv[1]);
  if (!h) { fprintf(stderr, "no harness %s\n", argv[1]); return 2; }
  FILE* f = fopen(argv[2], "r"); unsigned long long v;
  while (f && tape_n < 4096 && fscanf(f, "%llu", &v) == 1) tape[tape_n++] = v;
  h();
  printf("failures=%d\n", failures); fflush(stdout);
  return failures ? 1 : 0;
}

/* namespace-scope objects with destructors: registration is a no-op (harness processes never run exit handlers that matter) */
uint8_t G___dso_handle = 0;
uint32_t X___cxa_atexit(void* f, uint8_t* o, uint8_t* d){ (void)f; (void)o; (void)d; return 0; }

/* function-local statics with dynamic initialisation (sequential model): the guard's first byte says "initialised" */
uint32_t X___cxa_guard_acquire(uint64_t* g){ return *(uint8_t*)g == 0; }
void X___cxa_guard_release(uint64_t* g){ *(uint8_t*)g = 1; }
void X___cxa_guard_abort(uint64_t* g){ (void)g; }

// Native runtime for a harness TU built with g++ against the real headers:
// nondet_* read a tape (one decimal value per line), vassert logs.
// Used (1) for differential validation of the IR->C translator and
// (2) to replay solver counterexamples (built with ASan/UBSan for that).
#include <cstdint>
#include <cstdio>
#include <cstdlib>
#include <cstring>
#include <new>
#include <dlfcn.h>
#include <condition_variable>
#include <mutex>
#include <thread>

static std::uint64_t tape[4096]; static std::size_t tape_n = 0, tape_pos = 0; static int failures = 0;
static std::uint64_t next() { return tape_pos < tape_n ? tape[tape_pos++] : 0; }
static std::uint64_t live_blocks = 0, live_bytes = 0, peak_bytes = 0;

void* operator new(std::size_t n) {
  auto* p = static_cast<unsigned char*>(std::malloc(n + 16));
  if (!p) std::abort();
  *reinterpret_cast<std::uint64_t*>(p) = n;
  live_blocks++; live_bytes += n; if (live_bytes > peak_bytes) peak_bytes = live_bytes;
  return p + 16;
}
void operator delete(void* q) noexcept {
  if (!q) return;
  auto* p = static_cast<unsigned char*>(q) - 16;
  live_blocks--; live_bytes -= *reinterpret_cast<std::uint64_t*>(p);
  std::free(p);
}
void operator delete(void* q, std::size_t) noexcept { operator delete(q); }
void* operator new[](std::size_t n) { return operator new(n); }
void operator delete[](void* q) noexcept { operator delete(q); }
void operator delete[](void* q, std::size_t) noexcept { operator delete(q); }

extern "C" {
std::uint8_t nondet_u8(void) { return (std::uint8_t)next(); }
std::uint16_t nondet_u16(void) { return (std::uint16_t)next(); }
std::uint32_t nondet_u32(void) { return (std::uint32_t)next(); }
std::uint64_t nondet_u64(void) { return next(); }
void vassert(int c, int id) { std::printf("A %d %s\n", id, c ? "ok" : "FAIL"); if (!c) failures++; }
void vassume(int c) { if (!c) { std::printf("ASSUME-STOP\n"); std::fflush(stdout); std::_Exit(0); } }
void vrt_end(void) { std::printf("END\n"); }
void vrt_observe(std::uint64_t v) { std::printf("O %llu\n", (unsigned long long)v); }
std::uint64_t vrt_alloc_live_blocks(void) { return live_blocks; }
std::uint64_t vrt_alloc_live_bytes(void) { return live_bytes; }
std::uint64_t vrt_alloc_peak_bytes(void) { return peak_bytes; }
}

// three real threads, strictly sequential hand-off
namespace {
struct Worker { std::thread th; std::mutex m; std::condition_variable cv; void (*fn)(void*) = nullptr; void* arg = nullptr; bool busy = false, started = false; };
Worker workers[3];
void worker_loop(Worker* w) { std::unique_lock<std::mutex> l(w->m); for (;;) { w->cv.wait(l, [w] { return w->busy; }); w->fn(w->arg); w->busy = false; w->cv.notify_all(); } }
}
extern "C" void vrt_run_on(std::uint32_t t, void (*fn)(void*), void* arg) {
  if (t >= 3) { std::printf("ASSUME-STOP\n"); std::fflush(stdout); std::_Exit(0); }
  Worker* w = &workers[t];
  if (!w->started) { w->started = true; w->th = std::thread(worker_loop, w); w->th.detach(); }
  std::unique_lock<std::mutex> l(w->m); w->fn = fn; w->arg = arg; w->busy = true; w->cv.notify_all(); w->cv.wait(l, [w] { return !w->busy; });
}

int main(int argc, char** argv) {
  if (argc < 3) return 2;
  std::setvbuf(stdout, nullptr, _IOLBF, 0);
  auto h = reinterpret_cast<void (*)()>(dlsym(RTLD_DEFAULT, argv[1]));
  if (!h) { std::fprintf(stderr, "no harness %s\n", argv[1]); return 2; }
  FILE* f = std::fopen(argv[2], "r"); unsigned long long v;
  while (f && tape_n < 4096 && std::fscanf(f, "%llu", &v) == 1) tape[tape_n++] = v;
  if (f) std::fclose(f);
  h();
  std::printf("failures=%d\n", failures); std::fflush(stdout);
  if (workers[0].started || workers[1].started || workers[2].started) std::_Exit(failures ? 1 : 0);   // parked worker threads
  return failures ? 1 : 0;
}

/* Included at the top of every C file produced by vlib/ir2c.py.
 * Two modes: under CBMC (__CPROVER__ defined) assertions/assumptions are
 * solver primitives; natively (gcc, differential validation of the
 * translator) they log to stdout exactly like rt/native.cpp does for the
 * C++ build of the same harness. */
#ifndef VRT_GEN_PRELUDE_H
#define VRT_GEN_PRELUDE_H
#include <stdint.h>
#include <stddef.h>

#ifdef VRT_CBMC
#define VRT_STR_(x) #x
#define VRT_ASSERT(c, id) __CPROVER_assert((c), "vassert#" VRT_STR_(id))
#define VRT_ASSUME(c) __CPROVER_assume(c)
#define VRT_ASSERT_DYN(c, id) __CPROVER_assert((c), "vassert#dyn")
#define VRT_UB(msg) do { __CPROVER_assert(0, "UB: " msg); __CPROVER_assume(0); } while (0)
#define VRT_SHARED(name) __CPROVER_assert(0, "shared-global: " name)
#define VRT_SAME_OBJECT(a, b) (__CPROVER_POINTER_OBJECT(a) == __CPROVER_POINTER_OBJECT(b))
#else
void vrt_native_assert(int c, int id);
void vrt_native_assume(int c);
void vrt_native_ub(const char* msg);
#define VRT_ASSERT(c, id) vrt_native_assert((c) ? 1 : 0, id)
#define VRT_ASSUME(c) vrt_native_assume((c) ? 1 : 0)
#define VRT_ASSERT_DYN(c, id) vrt_native_assert((c) ? 1 : 0, (int)(id))
#define VRT_UB(msg) vrt_native_ub(msg)
#define VRT_SHARED(name) ((void)0)
#define VRT_SAME_OBJECT(a, b) 1
#endif

uint64_t __undef_u64(void);
static void vrt_memcpy(uint8_t* d, const uint8_t* s, uint64_t n){ for (uint64_t i = 0; i < n; i++) d[i] = s[i]; }
static void vrt_memmove(uint8_t* d, const uint8_t* s, uint64_t n){ if (!VRT_SAME_OBJECT(d, s) || d <= (uint8_t*)s) { for (uint64_t i = 0; i < n; i++) d[i] = s[i]; } else { for (uint64_t i = n; i > 0; i--) d[i-1] = s[i-1]; } }
static void vrt_memset(uint8_t* d, uint8_t v, uint64_t n){ for (uint64_t i = 0; i < n; i++) d[i] = v; }

/* integers whose width is not a power of two (i24, i40, i48, i56: small aggregates returned in registers) occupy exactly bits/8 bytes */
static inline uint64_t vrt_load_odd(const uint8_t* p, int n){ uint64_t v = 0; for (int i = 0; i < n; i++) v |= (uint64_t)p[i] << (8 * i); return v; }
static inline void vrt_store_odd(uint8_t* p, uint64_t v, int n){ for (int i = 0; i < n; i++) p[i] = (uint8_t)(v >> (8 * i)); }

static inline double __f64_from_bits(uint64_t b){ union { uint64_t u; double d; } x; x.u = b; return x.d; }
static inline float  __f32_from_bits(uint32_t b){ union { uint32_t u; float d; } x; x.u = b; return x.d; }
static inline uint64_t __bits_from_f64(double d){ union { uint64_t u; double d; } x; x.d = d; return x.u; }
static inline uint32_t __bits_from_f32(float d){ union { uint32_t u; float d; } x; x.d = d; return x.u; }
static inline uint64_t __vfshl_64(uint64_t a, uint64_t b, uint64_t c){ c &= 63; return c ? (a << c) | (b >> (64 - c)) : a; }
static inline uint64_t __vfshr_64(uint64_t a, uint64_t b, uint64_t c){ c &= 63; return c ? (a << (64 - c)) | (b >> c) : b; }
static inline uint32_t __vfshl_32(uint32_t a, uint32_t b, uint32_t c){ c &= 31; return c ? (a << c) | (b >> (32 - c)) : a; }
static inline uint32_t __vfshr_32(uint32_t a, uint32_t b, uint32_t c){ c &= 31; return c ? (a << (32 - c)) | (b >> c) : b; }
static inline uint16_t __vfshl_16(uint16_t a, uint16_t b, uint16_t c){ c &= 15; return c ? (uint16_t)((a << c) | (b >> (16 - c))) : a; }
static inline uint16_t __vfshr_16(uint16_t a, uint16_t b, uint16_t c){ c &= 15; return c ? (uint16_t)((a << (16 - c)) | (b >> c)) : b; }
static inline uint16_t __vbswap_16(uint16_t x){ return (uint16_t)((x >> 8) | (x << 8)); }
static inline uint32_t __vbswap_32(uint32_t x){ return (x >> 24) | ((x >> 8) & 0xff00u) | ((x << 8) & 0xff0000u) | (x << 24); }
static inline uint64_t __vbswap_64(uint64_t x){ return ((uint64_t)__vbswap_32((uint32_t)x) << 32) | __vbswap_32((uint32_t)(x >> 32)); }
#define VRT_MINMAX(W, T, S) \
static inline T __vumin_##W(T a, T b){ return a < b ? a : b; } \
static inline T __vumax_##W(T a, T b){ return a > b ? a : b; } \
static inline T __vsmin_##W(T a, T b){ return (S)a < (S)b ? a : b; } \
static inline T __vsmax_##W(T a, T b){ return (S)a > (S)b ? a : b; }
VRT_MINMAX(8, uint8_t, int8_t) VRT_MINMAX(16, uint16_t, int16_t) VRT_MINMAX(32, uint32_t, int32_t) VRT_MINMAX(64, uint64_t, int64_t)
#define VRT_SAT(W, T) \
static inline T __vuadd_sat_##W(T a, T b){ T r = (T)(a + b); return r < a ? (T)~(T)0 : r; } \
static inline T __vusub_sat_##W(T a, T b){ return a > b ? (T)(a - b) : (T)0; }
VRT_SAT(8, uint8_t) VRT_SAT(16, uint16_t) VRT_SAT(32, uint32_t) VRT_SAT(64, uint64_t)
static inline uint64_t __vctlz_64(uint64_t x, uint8_t z){ uint64_t n = 0; for (int i = 63; i >= 0; i--) { if ((x >> i) & 1) break; n++; } return n; }
static inline uint32_t __vctlz_32(uint32_t x, uint8_t z){ uint32_t n = 0; for (int i = 31; i >= 0; i--) { if ((x >> i) & 1) break; n++; } return n; }
static inline uint64_t __vcttz_64(uint64_t x, uint8_t z){ uint64_t n = 0; for (int i = 0; i < 64; i++) { if ((x >> i) & 1) break; n++; } return n; }
static inline uint32_t __vcttz_32(uint32_t x, uint8_t z){ uint32_t n = 0; for (int i = 0; i < 32; i++) { if ((x >> i) & 1) break; n++; } return n; }
static inline uint64_t __vabs_64(uint64_t x, uint8_t p){ return (int64_t)x < 0 ? (uint64_t)0 - x : x; }
static inline uint32_t __vabs_32(uint32_t x, uint8_t p){ return (int32_t)x < 0 ? (uint32_t)0 - x : x; }
#endif

#!/usr/bin/env python3
"""Pipeline shared by every property check.

 harness TU (C++, real libnop headers from /repo/include)
   -> clang++-14 -O1 -S -emit-llvm          (lower)
   -> vlib/ir2c.py                          (LLVM IR -> C, ours)
   -> goto-cc + rt/prelude.c                (goto binary)
   -> cbmc --function <h> ...               (SAT decides every assertion)
   -> on failure: trace -> tape -> native g++ ASan/UBSan replay of the TU
   -> after success: differential run (gcc build of generated C vs g++ build
      of the TU on shared tapes) validating the translator
   -> evidence/<ID>.json

Exit codes of a check: 0 property held on everything explored (known findings
are printed as KNOWN-FINDING lines), 1 violation (VIOLATION line), 2 the check
itself is inconclusive/broken (timeout, unwinding bound too small, vacuous
harness, translator mismatch): never reported as success.
"""
import concurrent.futures as cf
import hashlib, json, os, random, re, resource, shutil, signal, subprocess, sys, threading, time

VERIF = os.path.dirname(os.path.dirname(os.path.abspath(__file__)))
REPO = os.environ.get('VERIF_REPO', '/repo')
RT = os.path.join(VERIF, 'rt')
HDIR = os.path.join(VERIF, 'h')
sys.path.insert(0, os.path.join(VERIF, 'vlib'))
import ir2c

GUARD = 'LIBNOP_VERIF'
CLANG = 'clang++-14'
CLANG_FLAGS = ['-std=c++14', '-O1', '-fno-exceptions', '-fno-rtti', '-fno-vectorize', '-fno-slp-vectorize',
               '-fno-unroll-loops'] + ([] if os.environ.get('VERIF_INLINE') == '1' else ['-fno-inline']) + ['-D' + GUARD, '-I' + os.path.join(REPO, 'include'), '-I' + RT, '-I' + HDIR,
               '-S', '-emit-llvm', '-w']
GXX_FLAGS = ['-std=c++14', '-DVRT_REAL_STREAMS', '-D' + GUARD, '-I' + os.path.join(REPO, 'include'), '-I' + RT, '-I' + HDIR, '-w']
CBMC_BASE = ['--object-bits', '12', '--unwinding-assertions', '--drop-unused-functions', '--pointer-overflow-check',
             '--undefined-shift-check', '--json-ui', '--verbosity', '4']
JOBS = int(os.environ.get('VERIF_JOBS', '16'))
_print_lock = threading.Lock()


def log(*a):
    with _print_lock:
        print(*a, flush=True)


class Broken(Exception):
    """The check could not reach a verdict (never success, never violation)."""


def run(cmd, timeout=None, cwd=None, mem_gb=None, stdin=None):
    """run a command; returns (rc, stdout, stderr, wall, maxrss_mb). rc None on timeout."""
    def pre():
        os.setsid()
        if mem_gb:
            lim = int(mem_gb * (1 << 30))
            resource.setrlimit(resource.RLIMIT_AS, (lim, lim))
    t0 = time.time()
    # private TMPDIR, removed afterwards: a solver killed at its timeout leaves its CNF / SMT2 files behind otherwise
    import shutil, tempfile
    os.makedirs(os.path.join(VERIF, 'build', 'tmp'), exist_ok=True)
    tmpd = tempfile.mkdtemp(dir=os.path.join(VERIF, 'build', 'tmp'))
    p = subprocess.Popen(cmd, stdout=subprocess.PIPE, stderr=subprocess.PIPE, cwd=cwd, preexec_fn=pre, env=dict(os.environ, TMPDIR=tmpd),
                         stdin=subprocess.DEVNULL if stdin is None else subprocess.PIPE)
    try:
        out, err = p.communicate(input=stdin, timeout=timeout)
        rc = p.returncode
    except subprocess.TimeoutExpired:
        try:
            os.killpg(p.pid, signal.SIGKILL)
        except ProcessLookupError:
            pass
        out, err = p.communicate()
        rc = None
    finally:
        shutil.rmtree(tmpd, ignore_errors=True)
    wall = time.time() - t0
    try:
        ru = resource.getrusage(resource.RUSAGE_CHILDREN)
        rss = ru.ru_maxrss / 1024.0
    except Exception:
        rss = 0.0
    return rc, out.decode('utf-8', 'replace'), err.decode('utf-8', 'replace'), wall, rss


def parse_kv(s):
    d = {}
    for tok in s.split():
        if '=' in tok:
            k, v = tok.split('=', 1)
            d[k] = v
    return d


class TU:
    """One harness translation unit compiled with one set of defines."""

    def __init__(self, prop, src, defs=(), tag=None):
        self.prop = prop
        self.src = os.path.join(HDIR, src)
        self.defs = list(defs)
        self.tag = tag or (os.path.splitext(src)[0] + ''.join('_' + re.sub(r'\W', '', d) for d in defs))
        self.dir = os.path.join(VERIF, 'build', prop, self.tag)
        self.tu_opts = {}
        self.h_rules = []
        self.harnesses = []
        self.functions_encoded = []
        self.mutable_globals = []
        self.stats = {}
        self._native_lock = threading.Lock()
        self._native = {}
        text = open(self.src).read()
        for inc in re.findall(r'^#include "([^"]+\.(?:cpp|inc))"', text, re.M):   # annotations of included local harness sources come first
            ip = os.path.join(HDIR, inc)
            if os.path.exists(ip): text = open(ip).read() + '\n' + text
        for m in re.finditer(r'^//@tu\s+(.*)$', text, re.M):
            self.tu_opts.update(parse_kv(m.group(1)))
        for m in re.finditer(r'^//@h\s+(\S+)\s*:\s*(.*)$', text, re.M):
            self.h_rules.append((re.compile(m.group(1)), parse_kv(m.group(2))))

    def opts(self, h):
        o = dict(self.tu_opts)
        for rx, kv in self.h_rules:
            if rx.search(h):
                o.update(kv)
        return o

    def build(self):
        shutil.rmtree(self.dir, ignore_errors=True)
        os.makedirs(self.dir)
        ll = os.path.join(self.dir, 'tu.ll'); c = os.path.join(self.dir, 'tu.c'); gb = os.path.join(self.dir, 'tu.gb')
        t0 = time.time()
        flags = [f for f in CLANG_FLAGS if not (f == '-fno-inline' and self.tu_opts.get('inline') == '1') and not (f == '-fno-exceptions' and self.tu_opts.get('exceptions') == '1')]
        rc, out, err, w, _ = run([CLANG] + flags + ['-D' + d for d in self.defs] + [self.src, '-o', ll], timeout=600)
        if rc != 0:
            if self.tu_opts.get('must_compile') == '1':
                return ('nocompile', err)
            raise Broken('clang failed on %s:\n%s' % (self.src, err[-3000:]))
        self.stats['lower_s'] = round(time.time() - t0, 2)
        # -O0 lowering only to name the library functions the harness instantiates (at -O1 most are inlined away)
        self.o0_defined = []; self.o0_cg = {}
        rc0, _, _, _, _ = run([CLANG] + [f for f in CLANG_FLAGS if f != '-O1'] + ['-O0'] + ['-D' + d for d in self.defs] + [self.src, '-o', ll + '.O0'], timeout=600)
        if rc0 == 0:
            cur = None
            for line in open(ll + '.O0'):
                if line.startswith('define '):
                    mm = re.search(r'@("?)([^"(\s]+)\1\(', line)
                    cur = mm.group(2) if mm else None
                    if cur: self.o0_cg[cur] = set()
                elif cur and ('call ' in line or 'invoke ' in line):
                    for mm in re.finditer(r'@("?)([A-Za-z_$.0-9]+)\1', line):
                        self.o0_cg[cur].add(mm.group(2))
                elif line.startswith('}'):
                    cur = None
            os.unlink(ll + '.O0')
        t0 = time.time()
        try:
            mod_text = open(ll).read()
            exc = self.tu_opts.get('exceptions') == '1'
            csrc, info = ir2c.translate(mod_text, want_info=True, exceptions=exc)
            self.shared_globals = []
            if self.tu_opts.get('guard') == '1':
                # C19: every access to a mutable, non-thread_local global that belongs to library code becomes an assertion;
                # the solver decides whether any execution of the harness reaches one.
                mg = info['mutable_globals']; dem = demangle(mg)
                self.shared_globals = [(m, d) for m, d in zip(mg, dem) if 'nop::' in d]
                if self.shared_globals:
                    csrc, info = ir2c.translate(mod_text, want_info=True, guard_globals=[m for m, d in self.shared_globals], exceptions=exc)
        except ir2c.Unsupported as e:
            raise Broken('translator: unsupported construct in %s: %s' % (self.tag, e))
        open(c, 'w').write(csrc)
        self.stats['translate_s'] = round(time.time() - t0, 2)
        self.stats['ir_lines'] = mod_text.count('\n'); self.stats['c_lines'] = csrc.count('\n')
        self.info = info
        self.harnesses = sorted(n for n in info['defined'] if re.match(r'h[qt]_', n))
        self.mutable_globals = info['mutable_globals']
        t0 = time.time()
        cmd = ['goto-cc', '-DVRT_CBMC', '-I' + RT, c, os.path.join(RT, 'prelude.c'), '-o', gb]
        arena = self.tu_opts.get('arena')
        if arena and arena != '0':
            cmd.insert(1, '-DVRT_ARENA=' + arena)
        rc, out, err, w, _ = run(cmd, timeout=600)
        if rc != 0:
            raise Broken('goto-cc failed on %s:\n%s' % (c, (out + err)[-3000:]))
        self.stats['gotocc_s'] = round(time.time() - t0, 2)
        self.gb = gb; self.c = c; self.ll = ll
        # loop inventory (names are <C function>.<n>; library functions keep their mangled names because the TU is lowered with -fno-inline)
        self.loops = {}
        rc, out, err, w, _ = run(['cbmc', gb, '--show-loops', '--json-ui'], timeout=600)
        try:
            for m in json.loads(out):
                if isinstance(m, dict) and 'loops' in m:
                    for l in m['loops']:
                        self.loops.setdefault(l['sourceLocation'].get('function', l['name'].rsplit('.', 1)[0]), []).append(l['name'])
        except Exception:
            pass
        fns = sorted(self.loops)
        self.loop_dem = dict(zip(fns, demangle(fns)))
        return ('ok', '')

    def reachable(self, h):
        """functions (IR names) reachable from harness h via the -O0 IR call graph"""
        cg = self.o0_cg or self.info['callgraph']; seen = set(); st = [h]
        while st:
            f = st.pop()
            if f in seen: continue
            seen.add(f)
            st.extend(cg.get(f, ()))
        return seen

    def mem_loops(self, h):
        """which translator copy loops (vrt_memcpy/memset/memmove) and libc-stub loops are reachable from h in the -O1 IR"""
        cg = self.info['callgraph']; seen = set(); st = [h]; kinds = set(); ext = set()
        while st:
            f = st.pop()
            if f in seen: continue
            seen.add(f)
            kinds |= set(self.info['fn_mem'].get(f, ()))
            if f not in self.info['fn_mem']: ext.add(f)
            st.extend(cg.get(f, ()))
        return kinds, ext

    # ---- native builds (lazy, shared by diff + replay)
    def native(self, kind):
        """kind: 'cpp' (g++ of TU), 'c' (gcc of generated C), 'asan' (g++ ASan/UBSan of TU)"""
        with self._native_lock:
            if kind in self._native:
                return self._native[kind]
            exe = os.path.join(self.dir, 'native_' + kind)
            if kind == 'c':
                cmd = ['gcc', '-O1', '-w', '-I' + RT, self.c, os.path.join(RT, 'native_c.c'), '-o', exe, '-ldl', '-rdynamic', '-lm']
            elif kind == 'cpp':
                cmd = ['g++', '-O1'] + GXX_FLAGS + ['-D' + d for d in self.defs] + [self.src, os.path.join(RT, 'native.cpp'), '-o', exe, '-ldl', '-rdynamic', '-lpthread']
            else:
                cmd = ['g++', '-O0', '-g', '-fsanitize=address,undefined', '-fno-sanitize-recover=undefined', '-fno-omit-frame-pointer'] + GXX_FLAGS + \
                      ['-D' + d for d in self.defs] + [self.src, os.path.join(RT, 'native.cpp'), '-o', exe, '-ldl', '-rdynamic', '-lpthread']
            rc, out, err, w, _ = run(cmd, timeout=900)
            if rc != 0:
                raise Broken('native build (%s) failed for %s:\n%s' % (kind, self.tag, err[-3000:]))
            self._native[kind] = exe
            return exe


SOLVERS = {'minisat': [], 'cadical': ['--sat-solver', 'cadical'], 'kissat': ['--external-sat-solver', 'kissat']}


def parse_cbmc_json(out):
    try:
        msgs = json.loads(out)
    except Exception:
        return None, 'unparsable cbmc output: ' + out[-500:]
    results = None; errors = []
    for m in msgs:
        if isinstance(m, dict):
            if 'result' in m: results = m['result']
            if m.get('messageType') == 'ERROR': errors.append(m.get('messageText', ''))
    if results is None:
        return None, 'no result block; errors: ' + ' | '.join(errors)[-800:]
    return results, None


class Query:
    """One cbmc invocation = one harness function, all its assertions."""

    def __init__(self, tu, h, tier):
        self.tu = tu; self.h = h
        o = tu.opts(h)
        self.unwind = int(o.get('unwind', '12'))
        self.unwindset = o.get('unwindset', '')
        # byte-copy loops get their own generous bound (they are straight copies whose length is bounded by object sizes)
        mu = o.get('memunwind', '300')
        kinds, ext = tu.mem_loops(h)
        loops = []
        if 'memcpy' in kinds: loops.append('vrt_memcpy.0:' + mu)
        if 'memset' in kinds: loops.append('vrt_memset.0:' + mu)
        if 'memmove' in kinds: loops += ['vrt_memmove.0:' + mu, 'vrt_memmove.1:' + mu]
        for e in ('memcpy', 'memset', 'memcmp', 'bcmp'):
            if e in ext: loops.append('X_%s.0:%s' % (e, mu))
        if 'memmove' in ext: loops += ['X_memmove.0:' + mu, 'X_memmove.1:' + mu]
        # per-loop bounds: option keys 'loop:<regex on demangled function name>=N' (later rules override earlier ones)
        rules = [(k[5:], v) for k, v in o.items() if k.startswith('loop:')]
        self.loop_bounds = {}
        if rules:
            reach = set(tu.mem_loops(h)[1]) | set(self._reach_o1(tu, h))
            for fn, ids in tu.loops.items():
                if fn not in reach: continue
                dem = tu.loop_dem.get(fn, fn)
                for rx, n in rules:
                    if re.search(rx, dem):
                        for lid in ids: self.loop_bounds[lid] = n
        loops += ['%s:%s' % (k, v) for k, v in sorted(self.loop_bounds.items())]
        self.unwindset = ','.join([x for x in [self.unwindset] if x] + loops)
        self.solver = o.get('solver', 'minisat')
        self.timeout = int(o.get('timeout_' + tier, o.get('timeout', '300' if tier == 'quick' else '1500')))
        self.mem = float(o.get('mem', '14'))
        self.extra = o.get('cbmc', '').split(',') if o.get('cbmc') else []
        self.status = None; self.detail = ''; self.wall = 0.0; self.rss = 0.0
        self.n_props = 0; self.n_ok = 0; self.failed = []; self.witness_ok = False
        self.program_size = None

    @staticmethod
    def _reach_o1(tu, h):
        cg = tu.info['callgraph']; seen = set(); st = [h]
        while st:
            f = st.pop()
            if f in seen: continue
            seen.add(f); st.extend(cg.get(f, ()))
        return seen

    def cmd(self, trace_prop=None):
        c = ['cbmc', self.tu.gb, '--function', self.h, '--unwind', str(self.unwind)]
        if self.unwindset:
            c += ['--unwindset', self.unwindset]
        c += [x for x in CBMC_BASE if not (trace_prop and x == '--slice-formula')] + SOLVERS[self.solver] + self.extra
        if trace_prop:
            c += ['--trace', '--property', trace_prop]
        return c

    def run(self):
        rc, out, err, wall, rss = run(self.cmd(), timeout=self.timeout, mem_gb=self.mem)
        self.wall = wall; self.rss = rss
        if rc is None:
            self.status = 'timeout'; self.detail = 'no verdict within %d s' % self.timeout; return self
        results, e = parse_cbmc_json(out)
        if results is None:
            self.status = 'error'; self.detail = (e or '') + ' ' + err[-400:]; return self
        self.n_props = 0; self.failed = []
        unwind_fail = []; unknown = []; nobody = re.findall(r'no body for function (\S+)', out)
        for r in results:
            d = r.get('description', ''); st = r.get('status')
            if d == 'witness':
                self.witness_ok = (st == 'FAILURE'); continue
            if d.startswith('no body for callee'):
                if st != 'SUCCESS': nobody.append(d.split()[-1])
                continue
            self.n_props += 1
            if st == 'SUCCESS':
                self.n_ok += 1
            elif st != 'FAILURE':
                # CBMC reports UNKNOWN for properties it did not decide (e.g. the sibling sub-checks of a dereference whose
                # bounds check already failed); they are neither discharged nor counterexamples
                unknown.append(r.get('property'))
            elif d.startswith('unwinding assertion') or 'recursion unwinding' in d:
                unwind_fail.append(r.get('property'))
            else:
                self.failed.append({'property': r.get('property'), 'description': d, 'status': st,
                                    'loc': r.get('sourceLocation', {}).get('function', '')})
        if nobody:
            self.status = 'error'; self.detail = 'undefined external(s): ' + ','.join(sorted(set(nobody))); return self
        if self.failed:
            self.status = 'failed'
        elif unknown:
            self.status = 'error'; self.detail = '%d properties left UNKNOWN by cbmc without any FAILURE: %s' % (len(unknown), unknown[:3])
        elif unwind_fail:
            self.status = 'unwind'; self.detail = 'unwinding assertion failed (bound %d too small): %s' % (self.unwind, unwind_fail[:3])
        elif not self.witness_ok:
            self.status = 'vacuous'; self.detail = 'witness assertion not reachable: harness is vacuous'
        else:
            self.status = 'ok'
        return self

    def tape_for(self, prop):
        """re-run with --trace for one failing property and extract the input tape"""
        rc, out, err, wall, rss = run(self.cmd(trace_prop=prop), timeout=self.timeout * 2, mem_gb=self.mem)
        if rc is None:
            return None
        results, e = parse_cbmc_json(out)
        if results is None:
            return None
        for r in results:
            if r.get('property') == prop and r.get('status') == 'FAILURE' and 'trace' in r:
                tape = {}
                for st in r['trace']:
                    if st.get('stepType') != 'assignment': continue
                    lhs = st.get('lhs', '')
                    m = re.fullmatch(r'vrt_tape\[(\d+)l*\]', lhs.replace('L', '').replace('l', '')) if lhs.startswith('vrt_tape[') else None
                    if m:
                        v = st.get('value', {})
                        data = v.get('data')
                        if v.get('binary'):
                            val = int(v['binary'], 2)
                        else:
                            val = int(re.sub(r'[uUlL]+$', '', str(data)))
                        tape[int(m.group(1))] = val
                if not tape:
                    return []
                n = max(tape) + 1
                return [tape.get(i, 0) for i in range(n)]
        return None


def native_run(exe, h, tape, timeout=60, env_extra=None):
    tf = exe + '.%d.%d.tape' % (os.getpid(), threading.get_ident())
    open(tf, 'w').write('\n'.join(str(x) for x in tape) + '\n')
    env = dict(os.environ); env['ASAN_OPTIONS'] = 'detect_leaks=1:abort_on_error=0:exitcode=66'; env['UBSAN_OPTIONS'] = 'print_stacktrace=1:halt_on_error=1:exitcode=67'
    t0 = time.time()
    p = subprocess.Popen([exe, h, tf], stdout=subprocess.PIPE, stderr=subprocess.PIPE, env=env, start_new_session=True)   # not preexec_fn: that forces fork() of this (large) process, 20 runs/s
    try:
        out, err = p.communicate(timeout=timeout); rc = p.returncode
    except subprocess.TimeoutExpired:
        os.killpg(p.pid, signal.SIGKILL); out, err = p.communicate(); rc = None
    os.unlink(tf)
    return rc, out.decode('utf-8', 'replace'), err.decode('utf-8', 'replace')


def gen_tapes(seed, n, length=96):
    rnd = random.Random(seed)
    tapes = [[0] * length, [2 ** 64 - 1] * length, [1] * length]
    while len(tapes) < n:
        mode = rnd.randrange(4); t = []
        for _ in range(length):
            r = rnd.random()
            if mode == 0: v = rnd.randrange(4)
            elif mode == 1: v = rnd.randrange(256) if r < 0.7 else rnd.randrange(16)
            elif mode == 2: v = rnd.getrandbits(64) if r < 0.5 else rnd.randrange(8)
            else: v = rnd.choice([0, 1, 2, 3, 4, 5, 8, 127, 128, 255, 256, 65535, 65536, 2 ** 31, 2 ** 32 - 1, 2 ** 63, 2 ** 64 - 1, rnd.getrandbits(16), rnd.getrandbits(64)])
            t.append(v)
        tapes.append(t)
    return tapes


class Check:
    def __init__(self, prop, tier, seed):
        self.prop = prop; self.tier = tier; self.seed = seed
        self.t0 = time.time()
        self.tus = []; self.queries = []
        self.violations = []; self.known = []; self.broken = []; self.unconfirmed = []
        self.diff_runs = 0; self.diff_harnesses = 0
        self.extra_evidence = {}
        self.kf = json.load(open(os.path.join(VERIF, 'known_findings.json')))['findings']

    # ---- selection
    def want(self, h):
        only = os.environ.get('VERIF_ONLY')
        if only and not re.search(only, h): return False
        flt = getattr(self, 'harness_filter', None)
        if flt and not flt(h): return False
        return h.startswith('hq_') or (self.tier == 'thorough' and h.startswith('ht_'))

    def add_tu(self, src, defs=(), tag=None):
        tu = TU(self.prop, src, defs, tag); self.tus.append(tu); return tu

    # ---- main
    def execute(self):
        log('[%s] tier=%s seed=%d repo=%s' % (self.prop, self.tier, self.seed, REPO))
        with cf.ThreadPoolExecutor(max_workers=JOBS) as ex:
            futs = {ex.submit(tu.build): tu for tu in self.tus}
            for f in cf.as_completed(futs):
                tu = futs[f]
                try:
                    st, msg = f.result()
                except Broken as e:
                    self.broken.append(str(e)); continue
                if st == 'nocompile':
                    self.record_violation(tu, None, [{'description': 'required instantiation does not compile', 'property': 'compile'}], None, 'compile', msg[-2000:])
                    continue
                for h in tu.harnesses:
                    if self.want(h):
                        self.queries.append(Query(tu, h, self.tier))
                log('[%s] built %s: %d harnesses, %s' % (self.prop, tu.tag, len(tu.harnesses), tu.stats))
            if self.broken:
                return self.finish()
            # longest first
            self.queries.sort(key=lambda q: -q.timeout)
            futs = {ex.submit(q.run): q for q in self.queries}
            for f in cf.as_completed(futs):
                q = f.result()
                log('[%s]   %-52s %-8s %6.1fs %6.0fMB props=%d/%d %s' % (self.prop, q.h, q.status, q.wall, q.rss, q.n_ok, q.n_props, q.detail[:200]))
            # triage failures (native replay), sequential per query but parallel over queries
            bad = [q for q in self.queries if q.status == 'failed']
            list(ex.map(self.triage, bad))
            for q in self.queries:
                if q.status in ('timeout', 'error', 'unwind', 'vacuous'):
                    self.broken.append('%s/%s: %s %s' % (q.tu.tag, q.h, q.status, q.detail))
            # differential validation of the translator on harnesses the solver passed
            okq = [q for q in self.queries if q.status == 'ok']
            if okq and not self.broken:
                try:
                    self.differential(okq, ex)
                except Broken as e:
                    self.broken.append(str(e))
        return self.finish()

    def triage(self, q):
        tu = q.tu
        try:
            exe = tu.native('asan')
        except Broken as e:
            self.broken.append(str(e)); return
        groups = {}
        for fl in q.failed:
            groups.setdefault(fl['description'], fl)
        done = set(); budget = 5
        order = sorted(groups.items(), key=lambda kv: (0 if kv[0].startswith('vassert') else 1, kv[0]))
        for desc, fl in order:
            if budget == 0: break
            budget -= 1
            if desc.startswith('shared-global:'):
                # confirmation against the real build: the same symbol is a process-wide (non-TLS) data object in the native binary
                sym = desc.split(':', 1)[1].strip()
                try:
                    ex = tu.native('cpp')
                    nm = subprocess.run(['nm', '-C', ex], stdout=subprocess.PIPE).stdout.decode()
                except Exception as e:
                    nm = ''
                dem = dict((ir2c.cident(m), d) for m, d in getattr(tu, 'shared_globals', []))
                dname = dem.get(sym, sym)
                hits = [l for l in nm.split('\n') if re.search(r' [bBdDuVv] ', l) and dname.split('(')[0][:60] in l]
                what = {'harness': q.h, 'tu': tu.tag, 'cbmc': desc, 'cbmc_property': fl['property'], 'tape': [], 'native_rc': None,
                        'native_failed_asserts': [], 'sanitizer': None, 'native_frame': dname, 'nm': hits[:3]}
                if hits:
                    self.record_violation(tu, q, [fl], [], 'symbol', 'process-wide mutable object reachable from library code: %s\n%s' % (dname, '\n'.join(hits[:3])), what)
                else:
                    self.broken.append('%s/%s: solver reaches shared global %s but no such data symbol in the native binary' % (tu.tag, q.h, dname))
                continue
            tape = q.tape_for(fl['property'])
            if tape is None:
                self.broken.append('%s/%s: failing property %s (%s) but no trace could be produced' % (tu.tag, q.h, fl['property'], desc)); continue
            rc, out, err = native_run(exe, q.h, tape)
            fails = re.findall(r'^A (\d+) FAIL', out, re.M)
            san = re.search(r'(ERROR: AddressSanitizer: [^\n]*|runtime error: [^\n]*|ERROR: LeakSanitizer[^\n]*)', err)
            frame = ''
            fm = re.findall(r'#\d+ 0x[0-9a-f]+ in ([^\n]*?) (?:/|\()', err)
            for fr in fm:
                if 'nop::' in fr: frame = fr; break
            assume_stop = 'ASSUME-STOP' in out
            reproduced = (rc not in (0, None)) and not assume_stop and (bool(fails) or san is not None or rc < 0 or rc in (66, 67, 5))
            what = {'harness': q.h, 'tu': tu.tag, 'cbmc': desc, 'cbmc_property': fl['property'], 'tape': tape,
                    'native_rc': rc, 'native_failed_asserts': fails, 'sanitizer': san.group(1) if san else None, 'native_frame': frame}
            if reproduced:
                key = (tuple(fails), (san.group(1)[:60] if san else None))
                if key in done: continue
                done.add(key)
                self.record_violation(tu, q, [fl], tape, 'native', (out[-600:] + '\n' + err[-1500:]), what)
            else:
                self.unconfirmed.append(what)
                if ('pointer' in desc and 'overflow' in desc) or 'pointer relation' in desc or 'pointer arithmetic' in desc:
                    log('[%s] UNCONFIRMED (pointer-arithmetic finding no sanitizer can confirm; reported separately): %s %s' % (self.prop, q.h, desc))
                else:
                    self.broken.append('%s/%s: solver counterexample for "%s" does not reproduce natively (rc=%s): encoding or stub problem' % (tu.tag, q.h, desc, rc))

    def record_violation(self, tu, q, fls, tape, how, text, what=None):
        what = what or {'harness': q.h if q else '(compile)', 'tu': tu.tag, 'cbmc': fls[0]['description'], 'tape': tape, 'native_failed_asserts': [], 'sanitizer': None, 'native_frame': ''}
        what['property'] = self.prop; what['src'] = os.path.relpath(tu.src, VERIF); what['defs'] = tu.defs; what['how'] = how
        for k in self.kf:
            if k.get('status') != 'known' or k.get('property') != self.prop: continue
            m = k.get('match', {})
            if not re.search(m.get('harness', '.'), what['harness']): continue
            if 'assert_ids' in m and not (set(what.get('native_failed_asserts') or []) & set(str(x) for x in m['assert_ids'])): continue
            if 'native_frame' in m and not re.search(m['native_frame'], what.get('native_frame') or ''): continue
            if 'sanitizer' in m and not re.search(m['sanitizer'], what.get('sanitizer') or ''): continue
            self.known.append((k, what)); return
        os.makedirs(os.path.join(VERIF, 'replays'), exist_ok=True)
        hsh = hashlib.sha1(json.dumps([what['harness'], what['cbmc'], tape], sort_keys=True).encode()).hexdigest()[:10]
        path = os.path.join(VERIF, 'replays', '%s-%s-%s.json' % (self.prop, what['harness'], hsh))
        what['native_output'] = text
        json.dump(what, open(path, 'w'), indent=1)
        self.violations.append((path, what))

    def differential(self, okq, ex):
        ntapes = 12 if self.tier == 'quick' else 40
        tapes = gen_tapes(self.seed, ntapes)
        by_tu = {}
        for q in okq: by_tu.setdefault(q.tu, []).append(q)
        jobs = []
        for tu, qs in by_tu.items():
            if tu.tu_opts.get('nodiff') == '1': continue
            ec = tu.native('c'); ep = tu.native('cpp')
            for q in qs:
                self.diff_harnesses += 1
                for t in tapes:
                    jobs.append((tu, q.h, t, ec, ep))
        def one(j):
            tu, h, t, ec, ep = j
            r1 = native_run(ec, h, t, timeout=30); r2 = native_run(ep, h, t, timeout=30)
            return j, r1, r2
        for j, r1, r2 in ex.map(one, jobs):
            self.diff_runs += 1
            if r1[0] != r2[0] or r1[1] != r2[1]:
                raise Broken('translator differential mismatch on %s/%s tape=%s\n C  : rc=%s %s\n C++: rc=%s %s' % (
                    j[0].tag, j[1], j[2][:24], r1[0], r1[1][-400:], r2[0], r2[1][-400:]))

    # ---- reporting
    def finish(self):
        wall = time.time() - self.t0
        qs = self.queries
        fe = set()
        for tu in self.tus:
            if not hasattr(tu, 'info'): continue
            for q in qs:
                if q.tu is tu:
                    fe |= {f for f in tu.reachable(q.h)}
        dem = demangle(sorted(fe))
        lib_fns = sorted({d for d in dem if d.startswith('nop::') or ' nop::' in d})
        samples = []
        for q in qs[:6]:
            samples.append({'harness': q.h, 'tu': q.tu.tag, 'cmd': ' '.join(q.cmd()[1:]), 'status': q.status, 'assertions': q.n_props, 'wall_s': round(q.wall, 2)})
        for p, w in self.violations[:5]:
            samples.append({'violation': w['harness'], 'cbmc': w['cbmc'], 'tape': (w.get('tape') or [])[:32]})
        ev = {
            'property_id': self.prop, 'tier': self.tier, 'seed': self.seed, 'level': 'model_checking',
            'coverage': {
                'evaluations': len(qs),
                'distinct_nontrivial': len({(q.tu.tag, q.h) for q in qs if q.witness_ok}),
                'rule': 'one evaluation = one CBMC query (one harness instance = real libnop template instantiation + bound, all scalar inputs symbolic); '
                        'non-trivial = its reachability witness assertion was shown reachable (FAILURE of assert(0) at harness end), distinct by (TU, harness function)',
                'samples': samples,
                'obligations': sum(q.n_props for q in qs), 'discharged': sum(q.n_ok for q in qs),
                'engine': 'clang++-14 -O1 LLVM IR -> vlib/ir2c.py -> cbmc 6.11 (SAT)',
                'functions_encoded': lib_fns[:400], 'functions_encoded_count': len(lib_fns),
                'bounds': {q.h: {'unwind': q.unwind, 'unwindset': q.unwindset, 'solver': q.solver} for q in qs},
                'solver_time_s': round(sum(q.wall for q in qs), 1), 'peak_rss_mb': round(max([q.rss for q in qs] + [0])),
                'translator_differential_runs': self.diff_runs, 'translator_differential_harnesses': self.diff_harnesses,
                'mutable_non_tls_library_globals': sorted({g for tu in self.tus for g in tu.mutable_globals}),
                'stubs': 'rt/prelude.c (operator new/delete, abort/throw = violation, memcmp/bcmp/strlen/memchr loops)',
                'unconfirmed_pointer_findings': self.unconfirmed[:10],
                'known_findings_hit': [k.get('what') for k, w in self.known],
                'inconclusive': self.broken[:20],
            },
            'assumptions': ['IR->C translator (validated per run by the differential step and by native replay of every counterexample)',
                            'clang -O1 IR is the compiler\'s reading of the source', 'allocation never fails', 'little-endian x86-64 host',
                            'everything beyond the stated unwind/length/count bounds is outside the claim'],
            'wall_s': round(wall, 1), 'violations': len(self.violations),
        }
        ev['coverage'].update(self.extra_evidence)
        ev['assumptions'] += self.extra_evidence.get('assumes', [])
        os.makedirs(os.path.join(VERIF, 'evidence'), exist_ok=True)
        if ev['coverage']['evaluations'] >= 1 and ev['coverage']['distinct_nontrivial'] >= 2 or self.violations:
            # a run narrowed with VERIF_ONLY (debugging aid) is not the registered check: keep its record out of evidence/
            dest = os.path.join(VERIF, 'build', self.prop, 'evidence_partial.json') if os.environ.get('VERIF_ONLY') else os.path.join(VERIF, 'evidence', self.prop + '.json')
            os.makedirs(os.path.dirname(dest), exist_ok=True)
            json.dump(ev, open(dest, 'w'), indent=1)
        seen = set()
        for k, w in self.known:
            key = k.get('what')
            if key in seen: continue
            seen.add(key)
            log('KNOWN-FINDING: property=%s %s' % (self.prop, key))
        for path, w in self.violations:
            log('VIOLATION property=%s replay=%s' % (self.prop, path))
            log('  harness=%s cbmc="%s" native_asserts=%s sanitizer=%s' % (w['harness'], w['cbmc'], w.get('native_failed_asserts'), w.get('sanitizer')))
        for b in self.broken[:12]:
            log('[%s] INCONCLUSIVE: %s' % (self.prop, b))
        if len(self.broken) > 12: log('[%s] ... and %d more inconclusive items' % (self.prop, len(self.broken) - 12))
        ok = sum(1 for q in qs if q.status == 'ok')
        log('[%s] %d/%d queries ok, %d obligations discharged of %d, %d violations, %d known, wall %.1fs' % (
            self.prop, ok, len(qs), ev['coverage']['discharged'], ev['coverage']['obligations'], len(self.violations), len(seen), wall))
        if self.violations: return 1
        if self.broken: return 2
        return 0


def demangle(names):
    if not names: return []
    p = subprocess.run(['c++filt'], input='\n'.join(names).encode(), stdout=subprocess.PIPE)
    return p.stdout.decode().split('\n')


def replay(path):
    w = json.load(open(path))
    tu = TU(w['property'], os.path.basename(w['src']), w.get('defs', ()))
    os.makedirs(tu.dir, exist_ok=True)
    if w.get('how') == 'symbol':
        tu.build(); exe = tu.native('cpp')
        nm = subprocess.run(['nm', '-C', exe], stdout=subprocess.PIPE).stdout.decode()
        hits = [l for l in nm.split('\n') if re.search(r' [bBdDuVv] ', l) and w.get('native_frame', '?').split('(')[0][:60] in l]
        print('\n'.join(hits)); return 1 if hits else 0
    if w.get('how') == 'compile':
        rc, out, err, _, _ = run([CLANG] + CLANG_FLAGS + ['-D' + d for d in tu.defs] + [tu.src, '-o', '/dev/null'])
        print(err[-3000:]); print('compile rc=%s' % rc)
        return 1 if rc != 0 else 0
    exe = tu.native('asan')
    rc, out, err = native_run(exe, w['harness'], w['tape'])
    print(out); print(err[-4000:]); print('native rc=%s' % rc)
    return 1 if rc not in (0,) else 0

#!/usr/bin/env python3
"""Prototype LLVM-14 textual IR -> C translator (typed pointers), for CBMC.

Scope: what clang++-14 -O1 -fno-exceptions emits for libnop harness TUs.
Unsupported constructs raise, never silently mis-translate.
"""
import re, sys, collections

class Unsupported(Exception):
    pass

# ----------------------------------------------------------------- types
class Ty:
    pass

class IntTy(Ty):
    def __init__(s, bits): s.bits = bits
    def __eq__(s, o): return isinstance(o, IntTy) and o.bits == s.bits
    def __hash__(s): return hash(('i', s.bits))
    def __repr__(s): return 'i%d' % s.bits
class FloatTy(Ty):
    def __init__(s, kind): s.kind = kind  # 'float' | 'double'
    def __eq__(s, o): return isinstance(o, FloatTy) and o.kind == s.kind
    def __hash__(s): return hash(('f', s.kind))
    def __repr__(s): return s.kind
class VoidTy(Ty):
    def __eq__(s, o): return isinstance(o, VoidTy)
    def __hash__(s): return hash('void')
    def __repr__(s): return 'void'
class PtrTy(Ty):
    def __init__(s, to): s.to = to
    def __eq__(s, o): return isinstance(o, PtrTy) and o.to == s.to
    def __hash__(s): return hash(('p', s.to))
    def __repr__(s): return '%r*' % (s.to,)
class ArrTy(Ty):
    def __init__(s, n, el): s.n = n; s.el = el
    def __eq__(s, o): return isinstance(o, ArrTy) and o.n == s.n and o.el == s.el
    def __hash__(s): return hash(('a', s.n, s.el))
    def __repr__(s): return '[%d x %r]' % (s.n, s.el)
class NamedTy(Ty):
    def __init__(s, name): s.name = name
    def __eq__(s, o): return isinstance(o, NamedTy) and o.name == s.name
    def __hash__(s): return hash(('n', s.name))
    def __repr__(s): return '%%%s' % s.name
class StructTy(Ty):  # literal struct
    def __init__(s, els, packed): s.els = tuple(els); s.packed = packed
    def __eq__(s, o): return isinstance(o, StructTy) and o.els == s.els and o.packed == s.packed
    def __hash__(s): return hash(('s', s.els, s.packed))
    def __repr__(s): return '{%s}' % ', '.join(map(repr, s.els))
class FuncTy(Ty):
    def __init__(s, ret, params, vararg): s.ret = ret; s.params = tuple(params); s.vararg = vararg
    def __eq__(s, o): return isinstance(o, FuncTy) and (o.ret, o.params, o.vararg) == (s.ret, s.params, s.vararg)
    def __hash__(s): return hash(('fn', s.ret, s.params, s.vararg))
    def __repr__(s): return '%r (%s)' % (s.ret, ', '.join(map(repr, s.params)))
class OpaqueTy(Ty):
    def __eq__(s, o): return isinstance(o, OpaqueTy)
    def __hash__(s): return hash('opaque')

TOKEN = re.compile(r'''
    \s*(
      c"(?:[^"\\]|\\.)*"            # c-string
    | "(?:[^"\\]|\\.)*"             # quoted
    | %"(?:[^"\\]|\\.)*"            # quoted local / type name
    | @"(?:[^"\\]|\\.)*"            # quoted global
    | [%@$][-a-zA-Z$._0-9]+         # local / global / comdat
    | ![-a-zA-Z$._0-9]*             # metadata
    | \#[0-9]+                      # attr group
    | \.\.\.
    | <\{ | \}>
    | [-+]?[0-9]+\.[0-9]*(?:[eE][-+]?[0-9]+)?   # float
    | 0x[KLMHR]?[0-9A-Fa-f]+        # hex float
    | -?[0-9]+                      # int
    | [a-zA-Z_][a-zA-Z_0-9.]*       # word
    | [\[\]{}()<>=,*:]              # punct
    )''', re.X)

def tokenize(s):
    out = []; pos = 0
    while pos < len(s):
        m = TOKEN.match(s, pos)
        if not m:
            if s[pos:].strip() == '' or s[pos:].lstrip().startswith(';'):
                break
            raise Unsupported('tokenize: %r' % s[pos:pos+40])
        t = m.group(1)
        pos = m.end()
        out.append(t)
    return out

class P:
    """token cursor"""
    def __init__(s, toks): s.t = toks; s.i = 0
    def peek(s, k=0): return s.t[s.i+k] if s.i+k < len(s.t) else None
    def next(s):
        t = s.t[s.i]; s.i += 1; return t
    def accept(s, x):
        if s.peek() == x: s.i += 1; return True
        return False
    def expect(s, x):
        t = s.next()
        if t != x: raise Unsupported('expected %r got %r in %r' % (x, t, ' '.join(s.t)))
    def done(s): return s.i >= len(s.t)

def unq(name):
    # %"foo bar" -> foo bar ; %foo -> foo
    n = name[1:]
    if n.startswith('"'): n = n[1:-1]
    return n

def parse_type(p):
    t = p.next()
    if t == 'void': ty = VoidTy()
    elif re.fullmatch(r'i[0-9]+', t): ty = IntTy(int(t[1:]))
    elif t in ('float', 'double'): ty = FloatTy(t)
    elif t == 'opaque': ty = OpaqueTy()
    elif t.startswith('%'): ty = NamedTy(unq(t))
    elif t == '[':
        n = int(p.next()); p.expect('x'); el = parse_type(p); p.expect(']')
        ty = ArrTy(n, el)
    elif t == '{' or t == '<{':
        packed = (t == '<{'); els = []
        close = '}>' if packed else '}'
        if not p.accept(close):
            while True:
                els.append(parse_type(p))
                if p.accept(close): break
                p.expect(',')
        ty = StructTy(els, packed)
    elif t == '<':
        raise Unsupported('vector type')
    elif t == 'metadata': ty = VoidTy()
    else:
        raise Unsupported('type token %r' % t)
    while True:
        if p.accept('*'):
            ty = PtrTy(ty)
        elif p.peek() == '(':
            # function type
            p.next(); params = []; va = False
            if not p.accept(')'):
                while True:
                    if p.accept('...'): va = True
                    else: params.append(parse_type(p))
                    if p.accept(')'): break
                    p.expect(',')
            ty = FuncTy(ty, params, va)
        else:
            break
    return ty

PARAM_ATTRS = {'noundef','nocapture','readonly','writeonly','nonnull','noalias','signext','zeroext',
               'returned','immarg','readnone','inreg','nest','swiftself','nofree','inalloca','noreturn'}
def skip_attrs(p):
    while True:
        t = p.peek()
        if t in PARAM_ATTRS: p.next()
        elif t in ('align','dereferenceable','dereferenceable_or_null'):
            p.next()
            if p.accept('('): p.next(); p.expect(')')
            else: p.next()
        elif t in ('sret','byval','byref','preallocated','elementtype'):
            p.next(); p.expect('('); parse_type(p); p.expect(')')
        else: break

# ----------------------------------------------------------------- module
class Module:
    def __init__(s):
        s.named = collections.OrderedDict()   # name -> Ty (StructTy / OpaqueTy)
        s.globals = collections.OrderedDict() # name -> (ty, init_tokens|None, const, tls)
        s.funcs = collections.OrderedDict()   # name -> Func
        s.decls = collections.OrderedDict()   # name -> FuncTy
        s.aliases = {}
        s.ctors = []

class Func:
    def __init__(s, name, ret, params):
        s.name = name; s.ret = ret; s.params = params  # [(ty,name)]
        s.blocks = []  # [(label, [instr token lists])]

def parse_module(text):
    m = Module()
    lines = text.split('\n')
    i = 0
    while i < len(lines):
        ln = lines[i]; i += 1
        if not ln or ln.startswith(';') or ln.startswith('source_filename') or ln.startswith('target ') \
           or ln.startswith('attributes ') or ln.startswith('!') or ln.startswith('$'):
            continue
        if ln.startswith('%') and ' = type ' in ln:
            p = P(tokenize(ln)); name = unq(p.next()); p.expect('='); p.expect('type')
            m.named[name] = parse_type(p); continue
        if ln.startswith('@'):
            p = P(tokenize(ln)); name = unq(p.next()); p.expect('=')
            tls = False; const = False
            while p.peek() in ('private','internal','linkonce_odr','weak_odr','external','dso_local','unnamed_addr',
                               'local_unnamed_addr','constant','global','thread_local','weak','common','linkonce',
                               'available_externally','hidden','appending') and p.peek() != 'alias':
                t = p.next()
                if t == 'thread_local':
                    tls = True
                    if p.accept('('): p.next(); p.expect(')')
                if t == 'constant': const = True
                if t in ('constant', 'global'): break
            if p.peek() == 'alias':
                p.next(); parse_type(p); p.expect(','); parse_type(p); m.aliases[name] = unq(p.next()); continue
            ty = parse_type(p)
            rest = p.t[p.i:]
            # strip trailing ", align N", ", comdat", ", section ..." and metadata
            init = []
            depth = 0
            for tk in rest:
                if tk in ('[', '{', '(', '<{', '<'): depth += 1
                if tk in (']', '}', ')', '}>', '>'): depth -= 1
                if tk == ',' and depth == 0: break
                init.append(tk)
            if name == 'llvm.global_ctors':
                m.ctors = [unq(t) for t in rest if t.startswith('@')]
            if name.startswith('llvm.'): continue
            m.globals[name] = (ty, init if init else None, const, tls)
            continue
        if ln.startswith('declare '):
            p = P(tokenize(ln)); p.next()
            while p.peek() in ('dso_local','noundef','nonnull','noalias','signext','zeroext','align','dereferenceable','hidden','extern_weak'):
                t = p.next()
                if t == 'align': p.next()
                if t == 'dereferenceable': p.expect('('); p.next(); p.expect(')')
            ret = parse_type(p); name = unq(p.next()); p.expect('(')
            params = []; va = False
            if not p.accept(')'):
                while True:
                    if p.accept('...'): va = True
                    else:
                        params.append(parse_type(p)); skip_attrs(p)
                    if p.accept(')'): break
                    p.expect(',')
            m.decls[name] = FuncTy(ret, params, va); continue
        if ln.startswith('define '):
            p = P(tokenize(ln)); p.next()
            while p.peek() in ('dso_local','linkonce_odr','weak_odr','internal','private','noundef','nonnull','noalias','fastcc',
                               'signext','zeroext','hidden','weak','available_externally','align','dereferenceable'):
                t = p.next()
                if t == 'align': p.next()
                if t == 'dereferenceable': p.expect('('); p.next(); p.expect(')')
            ret = parse_type(p); name = unq(p.next()); p.expect('(')
            params = []
            if not p.accept(')'):
                while True:
                    ty = parse_type(p); skip_attrs(p)
                    pn = p.next()
                    params.append((ty, pn))
                    if p.accept(')'): break
                    p.expect(',')
            f = Func(name, ret, params)
            cur = None
            # first block label is implicit: next unnamed value number
            first_label = str(len(params))
            cur = (first_label, []); f.blocks.append(cur)
            while True:
                ln = lines[i]; i += 1
                if ln == '}': break
                if not ln.strip(): continue
                mm = re.match(r'^([-a-zA-Z$._0-9]+|"[^"]*"):', ln)
                if mm:
                    lab = mm.group(1).strip('"')
                    if cur[1] == [] and cur is f.blocks[0] and len(f.blocks) == 1 and False:
                        pass
                    cur = (lab, []); f.blocks.append(cur); continue
                if ln.lstrip().startswith('switch ') and ln.rstrip().endswith('['):
                    while not lines[i].strip().startswith(']'):
                        ln += ' ' + lines[i].strip(); i += 1
                    ln += ' ]'; i += 1
                if ' invoke ' in (' ' + ln.lstrip()) and ' to label ' not in ln:
                    ln += ' ' + lines[i].strip(); i += 1
                if ' landingpad ' in (' ' + ln.lstrip()):
                    while lines[i].strip().startswith(('cleanup', 'catch ', 'filter ')):
                        ln += ' ' + lines[i].strip(); i += 1
                toks = tokenize(ln)
                # drop trailing metadata attachments ", !tbaa !5"
                cut = len(toks)
                for k, tk in enumerate(toks):
                    if tk == ',' and k+1 < len(toks) and toks[k+1].startswith('!') and toks[k+1] != '!':
                        cut = k; break
                cur[1].append(toks[:cut])
            if f.blocks[0][1] == []: f.blocks.pop(0)
            m.funcs[name] = f; continue
        raise Unsupported('toplevel: %r' % ln[:80])
    return m

# ----------------------------------------------------------------- emit
def cident(name):
    return re.sub(r'[^A-Za-z0-9_]', '_', name)

class Emitter:
    def __init__(s, m):
        s.m = m; s.out = []; s.tydefs = []; s.tynames = {}; s.arr_names = {}; s.lit_names = {}
        s.fn_names = {}
        s.strid = 0
        s.ov_helpers = set()
        s.guard_globals = set()
        s.uses_eh = False; s.in_invoke = False; s.exceptions = False; s.post_call = None
        s.mem_uses = set()
        s.fn_mem = {}
    # ---- C type names
    def cty(s, ty):
        if isinstance(ty, IntTy):
            b = ty.bits
            if b == 1: return 'uint8_t'
            if b <= 8: return 'uint8_t'
            if b <= 16: return 'uint16_t'
            if b <= 32: return 'uint32_t'
            if b <= 64: return 'uint64_t'
            if b <= 128: return 'unsigned __int128'
            raise Unsupported('int width %d' % b)
        if isinstance(ty, FloatTy): return ty.kind
        if isinstance(ty, VoidTy): return 'void'
        if isinstance(ty, PtrTy):
            if isinstance(ty.to, FuncTy): return s.fnptr_name(ty.to)
            if isinstance(ty.to, (VoidTy,)): return 'uint8_t*'
            return s.cty(ty.to) + '*'
        if isinstance(ty, NamedTy):
            d = s.m.named.get(ty.name)
            if isinstance(d, OpaqueTy) or d is None: return 'struct T_' + cident(ty.name)
            return 'struct T_' + cident(ty.name)
        if isinstance(ty, ArrTy): return s.arr_name(ty)
        if isinstance(ty, StructTy): return s.lit_name(ty)
        if isinstance(ty, FuncTy): return s.fnptr_name(ty)[:-0] if False else 'void'
        raise Unsupported('cty %r' % (ty,))
    def arr_name(s, ty):
        if ty not in s.arr_names:
            el = s.cty(ty.el)
            nm = 'A%d_%s' % (ty.n, cident(el)) + ('_%d' % len(s.arr_names))
            s.arr_names[ty] = nm
            s.tydefs.append(('arr', nm, ty))
        return s.arr_names[ty]
    def lit_name(s, ty):
        if ty not in s.lit_names:
            nm = 'struct L_%d' % len(s.lit_names)
            s.lit_names[ty] = nm
            for e in ty.els: s.cty(e)
            s.tydefs.append(('lit', nm, ty))
        return s.lit_names[ty]
    def fnptr_name(s, ty):
        if ty not in s.fn_names:
            nm = 'FP_%d' % len(s.fn_names)
            s.fn_names[ty] = nm
            ret = s.cty(ty.ret); ps = ', '.join(s.cty(x) for x in ty.params) or 'void'
            if ty.vararg: ps += ', ...'
            s.tydefs.append(('fn', nm, 'typedef %s (*%s)(%s);' % (ret, nm, ps)))
        return s.fn_names[ty]

    def emit_types(s):
        """struct definitions in dependency order (by-value containment)."""
        lines = ['/* ---- types ---- */']
        for name, d in s.m.named.items():
            lines.append('struct T_%s;' % cident(name))
        done = set(); body = []
        def need(ty):
            if isinstance(ty, NamedTy): define_named(ty.name)
            elif isinstance(ty, ArrTy): need(ty.el); define_arr(ty)
            elif isinstance(ty, StructTy):
                for e in ty.els: need(e)
                define_lit(ty)
            elif isinstance(ty, PtrTy):
                # make sure typedef names exist (arrays/literals/fnptrs pointed to)
                t = ty.to
                if isinstance(t, ArrTy): need(t)
                elif isinstance(t, StructTy): need(t)
                elif isinstance(t, FuncTy):
                    for x in (t.ret,) + t.params:
                        if isinstance(x, PtrTy): need(x)
                        elif not isinstance(x, VoidTy): need(x)
                    define_fn(t)
                elif isinstance(t, PtrTy): need(t)
        def fields(els):
            fs = []
            for k, e in enumerate(els):
                need(e)
                fs.append('  %s f%d;' % (s.cty(e), k))
            if not fs: fs.append('  uint8_t _empty[0];')
            return fs
        def define_named(name):
            key = ('n', name)
            if key in done: return
            done.add(key)
            d = s.m.named[name]
            if isinstance(d, OpaqueTy): return
            fs = fields(d.els)
            body.append('struct %sT_%s {' % ('__attribute__((packed)) ' if d.packed else '', cident(name)))
            body.extend(fs); body.append('};')
        def define_arr(ty):
            key = ('a', ty)
            if key in done: return
            done.add(key)
            body.append('typedef %s %s[%d];' % (s.cty(ty.el), s.arr_name(ty), ty.n))
        def define_lit(ty):
            key = ('l', ty)
            if key in done: return
            done.add(key)
            fs = fields(ty.els)
            body.append('struct %s%s {' % ('__attribute__((packed)) ' if ty.packed else '', s.lit_name(ty).split()[-1]))
            body.extend(fs); body.append('};')
        def define_fn(ty):
            key = ('f', ty)
            if key in done: return
            done.add(key)
            nm = s.fnptr_name(ty)
            for k, n_, txt in s.tydefs:
                if k == 'fn' and n_ == nm: body.append(txt)
        for name in s.m.named: define_named(name)
        # anything registered during function emission
        for kind, nm, ty in list(s.tydefs):
            if kind == 'arr': need(ty)
            elif kind == 'lit': need(ty)
            elif kind == 'fn':
                for t, tyk in s.fn_names.items():
                    if tyk == nm: need(PtrTy(t))
        return lines + body

    # ---- constants / operands
    def const_expr(s, p, ty):
        """parse a constant/operand of known type from cursor, return C expr"""
        t = p.next()
        if t in ('true', 'false'): return '1' if t == 'true' else '0'
        if re.fullmatch(r'-?[0-9]+', t):
            if isinstance(ty, IntTy):
                v = int(t) & ((1 << ty.bits) - 1)
                if ty.bits > 64:
                    return '(((unsigned __int128)%dULL << 64) | %dULL)' % (v >> 64, v & (2**64-1))
                return '((%s)%dULL)' % (s.cty(ty), v)
            if isinstance(ty, FloatTy): return '((%s)%s)' % (ty.kind, t)
            raise Unsupported('int const for %r' % (ty,))
        if re.fullmatch(r'[-+]?[0-9]+\.[0-9]*(?:[eE][-+]?[0-9]+)?', t):
            return '((%s)%s)' % (s.cty(ty), t)
        if t.startswith('0x'):
            if isinstance(ty, FloatTy):
                bits = int(t[2:], 16)
                if ty.kind == 'double': return '__f64_from_bits(%dULL)' % bits
                return '((float)__f64_from_bits(%dULL))' % bits
            raise Unsupported('hex const')
        if t in ('null',): return '((%s)0)' % s.cty(ty)
        if t in ('undef', 'poison'):
            return s.undef(ty)
        if t == 'zeroinitializer':
            return s.zero(ty)
        if t.startswith('%'): return s.loc(t)
        if t.startswith('@'):
            return s.gref(unq(t), ty)
        if t == 'getelementptr':
            p.accept('inbounds'); p.expect('(')
            bty = parse_type(p); p.expect(',')
            pty = parse_type(p); base = s.const_expr(p, pty)
            idx = []
            while p.accept(','):
                p.accept('inrange')
                ity = parse_type(p); idx.append((ity, s.const_expr(p, ity)))
            p.expect(')')
            e, rty = s.gep(base, pty, idx)
            return '((%s)%s)' % (s.cty(ty), e)
        if t in ('bitcast', 'inttoptr', 'ptrtoint', 'addrspacecast', 'trunc', 'zext', 'sext'):
            p.expect('('); fty = parse_type(p); v = s.const_expr(p, fty); p.expect('to'); tty = parse_type(p); p.expect(')')
            return s.cast(t, v, fty, tty)
        if t in ('add', 'sub', 'mul', 'and', 'or', 'xor', 'shl', 'lshr'):
            while p.peek() in ('nuw', 'nsw', 'exact'): p.next()
            p.expect('('); aty = parse_type(p); a = s.const_expr(p, aty); p.expect(','); bty = parse_type(p); b = s.const_expr(p, bty); p.expect(')')
            return s.binop(t, aty, a, b)
        if t in ('{', '[', '<{', 'c"') or t.startswith('c"'):
            raise Unsupported('aggregate constant as operand')
        raise Unsupported('const %r (type %r)' % (t, ty))

    def undef(s, ty):
        if isinstance(ty, IntTy): return '((%s)__undef_u64())' % s.cty(ty)
        if isinstance(ty, PtrTy): return '((%s)0)' % s.cty(ty)
        if isinstance(ty, FloatTy): return '((%s)0)' % ty.kind
        return s.zero(ty)
    def zero(s, ty):
        if isinstance(ty, (IntTy, FloatTy, PtrTy)): return '((%s)0)' % s.cty(ty)
        return '(%s){0}' % s.cty(ty) if not isinstance(ty, ArrTy) else None

    def gref(s, name, ty=None):
        name = s.m.aliases.get(name, name)
        if name in s.m.funcs or name in s.m.decls:
            e = '&' + s.fname(name)
            return '((%s)%s)' % (s.cty(ty), e) if ty is not None else e
        if name in s.m.globals:
            return '(&G_%s)' % cident(name)
        raise Unsupported('unknown global @%s' % name)
    def fname(s, name):
        name = s.m.aliases.get(name, name)
        if name in s.m.funcs and not re.fullmatch(r'[A-Za-z_][A-Za-z0-9_]*', name): return 'F_' + cident(name)
        if name in s.m.funcs: return name
        if name.startswith('__CPROVER'): return name
        return 'X_' + cident(name)
    def loc(s, t):
        n = unq(t)
        return 'v_' + cident(n)

    def static_init(s, p, ty):
        """global initializer -> C initializer text"""
        t = p.peek()
        if t == 'zeroinitializer': p.next(); return '{0}' if not isinstance(ty, (IntTy, FloatTy, PtrTy)) else '0'
        if t == 'undef': p.next(); return '{0}' if not isinstance(ty, (IntTy, FloatTy, PtrTy)) else '0'
        if t.startswith('c"'):
            p.next(); raw = t[2:-1]; bs = []
            k = 0
            while k < len(raw):
                if raw[k] == '\\':
                    bs.append(int(raw[k+1:k+3], 16)); k += 3
                else:
                    bs.append(ord(raw[k])); k += 1
            return '{' + ','.join(str(b) for b in bs) + '}'
        if t in ('{', '<{'):
            p.next(); close = '}' if t == '{' else '}>'; parts = []
            if not p.accept(close):
                while True:
                    ety = parse_type(p); parts.append(s.static_init(p, ety))
                    if p.accept(close): break
                    p.expect(',')
            return '{' + ', '.join(parts) + '}'
        if t == '[':
            p.next(); parts = []
            if not p.accept(']'):
                while True:
                    ety = parse_type(p); parts.append(s.static_init(p, ety))
                    if p.accept(']'): break
                    p.expect(',')
            return '{' + ', '.join(parts) + '}'
        return s.const_expr(p, ty)

    # ---- helpers for ops
    def sty(s, ty):
        return {'uint8_t': 'int8_t', 'uint16_t': 'int16_t', 'uint32_t': 'int32_t', 'uint64_t': 'int64_t',
                'unsigned __int128': '__int128'}[s.cty(ty)]
    def mask(s, ty, e):
        b = ty.bits
        if b in (8, 16, 32, 64, 128): return '((%s)(%s))' % (s.cty(ty), e)
        return '((%s)((%s) & %dULL))' % (s.cty(ty), e, (1 << b) - 1)
    def sx(s, ty, e):
        """sign-extend value of int type ty to its signed C carrier"""
        b = ty.bits
        if b in (8, 16, 32, 64, 128): return '((%s)(%s))' % (s.sty(ty), e)
        w = {8: 8, 16: 16, 32: 32, 64: 64}[[x for x in (8, 16, 32, 64) if x >= b][0]]
        return '((%s)((%s)((%s)(%s) << %d)) >> %d)' % (s.sty(ty), s.sty(ty), s.cty(ty), e, w - b, w - b)
    def wide(s, ty):
        return 'unsigned __int128' if ty.bits > 64 else 'uint64_t'
    def binop(s, op, ty, a, b):
        if isinstance(ty, FloatTy):
            o = {'fadd': '+', 'fsub': '-', 'fmul': '*', 'fdiv': '/'}[op]
            return '(%s %s %s)' % (a, o, b)
        W = s.wide(ty)
        if op in ('add', 'sub', 'mul', 'and', 'or', 'xor'):
            o = {'add': '+', 'sub': '-', 'mul': '*', 'and': '&', 'or': '|', 'xor': '^'}[op]
            return s.mask(ty, '(%s)%s %s (%s)%s' % (W, a, o, W, b))
        if op == 'shl': return s.mask(ty, '(%s)%s << %s' % (W, a, b))
        if op == 'lshr': return s.mask(ty, '(%s)%s >> %s' % (W, a, b))
        if op == 'ashr': return s.mask(ty, '%s >> %s' % (s.sx(ty, a), b))
        if op == 'udiv': return s.mask(ty, '%s / %s' % (a, b))
        if op == 'urem': return s.mask(ty, '%s %% %s' % (a, b))
        if op == 'sdiv': return s.mask(ty, '%s / %s' % (s.sx(ty, a), s.sx(ty, b)))
        if op == 'srem': return s.mask(ty, '%s %% %s' % (s.sx(ty, a), s.sx(ty, b)))
        raise Unsupported('binop ' + op)
    def cast(s, op, v, fty, tty):
        if op in ('bitcast', 'addrspacecast'):
            if isinstance(fty, PtrTy) and isinstance(tty, PtrTy): return '((%s)%s)' % (s.cty(tty), v)
            if isinstance(fty, FloatTy) and isinstance(tty, IntTy):
                return '__bits_from_%s(%s)' % ('f32' if fty.kind == 'float' else 'f64', v)
            if isinstance(fty, IntTy) and isinstance(tty, FloatTy):
                return '__%s_from_bits(%s)' % ('f32' if tty.kind == 'float' else 'f64', v)
            if fty == tty: return v
            raise Unsupported('bitcast %r -> %r' % (fty, tty))
        if op == 'inttoptr': return '((%s)(uintptr_t)%s)' % (s.cty(tty), v)
        if op == 'ptrtoint': return s.mask(tty, '(uintptr_t)%s' % v)
        if op == 'trunc': return s.mask(tty, v)
        if op == 'zext': return '((%s)%s)' % (s.cty(tty), v)
        if op == 'sext': return s.mask(tty, '(%s)%s' % (s.sty(tty), s.sx(fty, v)))
        if op in ('fpext', 'fptrunc'): return '((%s)%s)' % (tty.kind, v)
        if op == 'uitofp': return '((%s)%s)' % (tty.kind, v)
        if op == 'sitofp': return '((%s)%s)' % (tty.kind, s.sx(fty, v))
        if op == 'fptoui': return s.mask(tty, '(%s)%s' % (s.cty(tty), v))
        if op == 'fptosi': return s.mask(tty, '(%s)%s' % (s.sty(tty), v))
        raise Unsupported('cast ' + op)
    def resolve(s, ty):
        while isinstance(ty, NamedTy): ty = s.m.named[ty.name]
        return ty
    def gep(s, base, pty, idx):
        """base: C expr of pointer type pty; idx: [(ty, cexpr)] -> (C expr, result PtrTy)"""
        cur = pty.to
        (i0ty, i0) = idx[0]
        lv = '%s[(int64_t)%s]' % (base, s.sx(i0ty, i0) if isinstance(i0ty, IntTy) else i0)
        for (ity, e) in idx[1:]:
            r = s.resolve(cur)
            if isinstance(r, StructTy):
                m_ = re.fullmatch(r'\(\(uint\d+_t\)(\d+)ULL\)', e)
                if not m_: raise Unsupported('non-constant struct index %r' % e)
                k = int(m_.group(1)); lv += '.f%d' % k; cur = r.els[k]
            elif isinstance(r, ArrTy):
                lv += '[(int64_t)%s]' % s.sx(ity, e); cur = r.el
            else:
                raise Unsupported('gep into %r' % (r,))
        return '(&%s)' % lv, PtrTy(cur)

    # ---- functions
    def proto(s, name, ret, ptys, va=False):
        ps = ', '.join(s.cty(t) for t in ptys) or 'void'
        if va: ps += ', ...'
        return '%s %s(%s)' % (s.cty(ret), s.fname(name), ps)

    def emit_func(s, f):
        out = []
        s.p2i = {}
        decls = collections.OrderedDict()  # cname -> ctype
        allocas = []
        params = ', '.join('%s %s' % (s.cty(t), s.loc(n)) for t, n in f.params) or 'void'
        body = []
        labels = {b[0] for b in f.blocks}
        def L(tok): return 'L_' + cident(unq(tok))
        # collect phis: block -> [(dest, ty, [(val_expr_tokens, pred)])]
        phis = collections.defaultdict(list)
        vtypes = {}
        for t, n in f.params: vtypes[s.loc(n)] = t
        # first pass: determine result types of all instructions (needed for phi operand typing)
        for lab, ins in f.blocks:
            for toks in ins:
                if len(toks) > 2 and toks[1] == '=' and toks[2] == 'phi':
                    p = P(toks[3:]); ty = parse_type(p); inc = []
                    while True:
                        p.expect('['); vt = []; depth = 0
                        while not (p.peek() == ',' and depth == 0):
                            tk = p.next()
                            if tk in ('(', '[', '{', '<{'): depth += 1
                            elif tk in (')', ']', '}', '}>'): depth -= 1
                            vt.append(tk)
                        p.expect(','); pred = p.next(); p.expect(']')
                        inc.append((vt, unq(pred)))
                        if not p.accept(','): break
                    phis[lab].append((s.loc(toks[0]), ty, inc))
                    decls[s.loc(toks[0])] = s.cty(ty)
        def phi_moves(frm, to):
            mv = phis.get(to)
            if not mv: return []
            lines = []; tmps = []
            for k, (dst, ty, inc) in enumerate(mv):
                src = [vt for vt, pred in inc if pred == frm]
                if not src: raise Unsupported('phi without incoming for %s from %s' % (dst, frm))
                e = s.const_expr(P(src[0]), ty)
                if len(mv) == 1:
                    lines.append('%s = %s;' % (dst, e))
                else:
                    tn = '%s_phi_tmp' % dst
                    decls[tn] = s.cty(ty)
                    lines.append('%s = %s;' % (tn, e)); tmps.append('%s = %s;' % (dst, tn))
            return lines + tmps
        def jump(frm, to_tok):
            to = unq(to_tok)
            mv = phi_moves(frm, to)
            return '{ %s goto %s; }' % (' '.join(mv), L(to_tok))
        for lab, ins in f.blocks:
            body.append('%s: ;' % ('L_' + cident(lab)))
            for toks in ins:
                try:
                    s.emit_instr(f, lab, toks, body, decls, allocas, jump)
                except Unsupported as e:
                    raise Unsupported('%s: in @%s: %s' % (e, f.name, ' '.join(toks)[:200]))
        out.append('%s %s(%s) {' % (s.cty(f.ret), s.fname(f.name), params))
        if re.match(r'h[qt]_', f.name) and s.m.ctors: out.append('  vrt_global_init_once();')
        for n, t in decls.items():
            out.append('  %s %s;' % (t, n))
        for a in allocas: out.append('  ' + a)
        out.append('  goto L_%s;' % cident(f.blocks[0][0]))
        out.extend('  ' + b for b in body)
        out.append('}')
        return out

    def operand(s, p, ty):
        return s.const_expr(p, ty)

    def ret_zero(s, f):
        ty = f.ret
        if isinstance(ty, VoidTy): return 'return;'
        if isinstance(ty, (IntTy, FloatTy, PtrTy)): return 'return ((%s)0);' % s.cty(ty)
        return 'return (%s){0};' % s.cty(ty)

    NOTHROW = ('vassume', 'vrt_', 'nondet_', '__cxa_begin_catch', '__cxa_end_catch', '__cxa_allocate_exception', '__cxa_free_exception')

    def emit_instr(s, f, lab, toks, body, decls, allocas, jump):
        if s.guard_globals:
            for tk in toks:
                if tk.startswith('@') and unq(tk) in s.guard_globals:
                    body.append('VRT_SHARED("%s");' % cident(unq(tk))); break
        p = P(toks)
        dst = None
        if p.peek(1) == '=':
            dst = s.loc(p.next()); p.next()
        op = p.next()
        def setv(ty, e):
            decls[dst] = s.cty(ty)
            body.append('%s = %s;' % (dst, e))
        if op in ('tail', 'musttail', 'notail'):
            op = p.next()
        if op in ('add', 'sub', 'mul', 'and', 'or', 'xor', 'shl', 'lshr', 'ashr', 'udiv', 'urem', 'sdiv', 'srem',
                  'fadd', 'fsub', 'fmul', 'fdiv'):
            while p.peek() in ('nuw', 'nsw', 'exact', 'fast', 'nnan', 'ninf', 'nsz', 'arcp', 'contract', 'afn', 'reassoc'): p.next()
            ty = parse_type(p); a = s.operand(p, ty); p.expect(','); b = s.operand(p, ty)
            if False and op == 'sub' and a in s.p2i and b in s.p2i:
                return setv(ty, '((uint64_t)((const uint8_t*)%s - (const uint8_t*)%s))' % (s.p2i[a], s.p2i[b]))
            return setv(ty, s.binop(op, ty, a, b))
        if op == 'icmp':
            pred = p.next(); ty = parse_type(p); a = s.operand(p, ty); p.expect(','); b = s.operand(p, ty)
            if isinstance(ty, PtrTy):
                a = '((const uint8_t*)%s)' % a; b = '((const uint8_t*)%s)' % b
                if pred[0] == 's': raise Unsupported('signed pointer compare')
                o = {'eq': '==', 'ne': '!=', 'ugt': '>', 'uge': '>=', 'ult': '<', 'ule': '<='}[pred]
                return setv(IntTy(1), '(%s %s %s)' % (a, o, b))
            else: ity = ty
            o = {'eq': '==', 'ne': '!=', 'ugt': '>', 'uge': '>=', 'ult': '<', 'ule': '<=',
                 'sgt': '>', 'sge': '>=', 'slt': '<', 'sle': '<='}[pred]
            if pred[0] == 's': a = s.sx(ity, a); b = s.sx(ity, b)
            return setv(IntTy(1), '(%s %s %s)' % (a, o, b))
        if op == 'fcmp':
            pred = p.next(); ty = parse_type(p); a = s.operand(p, ty); p.expect(','); b = s.operand(p, ty)
            o = {'oeq': '==', 'ogt': '>', 'oge': '>=', 'olt': '<', 'ole': '<=', 'une': '!='}.get(pred)
            if not o: raise Unsupported('fcmp ' + pred)
            return setv(IntTy(1), '(%s %s %s)' % (a, o, b))
        if op in ('trunc', 'zext', 'sext', 'bitcast', 'inttoptr', 'ptrtoint', 'fpext', 'fptrunc', 'uitofp', 'sitofp',
                  'fptoui', 'fptosi', 'addrspacecast'):
            fty = parse_type(p); v = s.operand(p, fty); p.expect('to'); tty = parse_type(p)
            if op == 'ptrtoint' and isinstance(tty, IntTy) and tty.bits == 64: s.p2i[dst] = v
            return setv(tty, s.cast(op, v, fty, tty))
        if op == 'select':
            cty_ = parse_type(p); c = s.operand(p, cty_); p.expect(',')
            ty = parse_type(p); a = s.operand(p, ty); p.expect(','); ty2 = parse_type(p); b = s.operand(p, ty2)
            return setv(ty, '(%s ? %s : %s)' % (c, a, b))
        if op == 'freeze':
            ty = parse_type(p); v = s.operand(p, ty); return setv(ty, v)
        if op == 'alloca':
            ty = parse_type(p)
            if p.accept(','):
                if p.peek() != 'align': raise Unsupported('dynamic alloca')
            if lab != f.blocks[0][0]: raise Unsupported('alloca outside entry block')
            allocas.append('%s %s_mem;' % (s.cty(ty), dst))
            decls[dst] = s.cty(PtrTy(ty))
            body.append('%s = &%s_mem;' % (dst, dst)); return
        if op == 'load':
            p.accept('atomic'); p.accept('volatile'); ty = parse_type(p); p.expect(','); pty = parse_type(p); a = s.operand(p, pty)   # atomic orderings are irrelevant in the sequential model
            if isinstance(ty, IntTy) and ty.bits not in (8, 16, 32, 64) and ty.bits != 1:
                if ty.bits % 8 != 0 or ty.bits > 64: raise Unsupported('odd-width load i%d' % ty.bits)
                return setv(ty, '((%s)vrt_load_odd((const uint8_t*)%s, %d))' % (s.cty(ty), a, ty.bits // 8))
            if isinstance(ty, ArrTy): raise Unsupported('array-valued load')
            return setv(ty, '*%s' % a)
        if op == 'store':
            p.accept('atomic'); p.accept('volatile'); ty = parse_type(p); v = s.operand(p, ty); p.expect(','); pty = parse_type(p); a = s.operand(p, pty)
            if isinstance(ty, IntTy) and ty.bits not in (1, 8, 16, 32, 64):
                if ty.bits % 8 != 0 or ty.bits > 64: raise Unsupported('odd-width store i%d' % ty.bits)
                body.append('vrt_store_odd((uint8_t*)%s, (uint64_t)%s, %d);' % (a, v, ty.bits // 8)); return
            body.append('*%s = %s;' % (a, v)); return
        if op == 'getelementptr':
            p.accept('inbounds'); bty = parse_type(p); p.expect(','); pty = parse_type(p); base = s.operand(p, pty)
            idx = []
            while p.accept(','):
                ity = parse_type(p); idx.append((ity, s.operand(p, ity)))
            e, rty = s.gep(base, pty, idx)
            return setv(rty, e)
        if op == 'br':
            if p.peek() == 'label':
                p.next(); body.append(jump(lab, p.next())); return
            ty = parse_type(p); c = s.operand(p, ty); p.expect(','); p.expect('label'); a = p.next(); p.expect(','); p.expect('label'); b = p.next()
            body.append('if (%s) %s else %s' % (c, jump(lab, a), jump(lab, b))); return
        if op == 'switch':
            ty = parse_type(p); v = s.operand(p, ty); p.expect(','); p.expect('label'); d = p.next(); p.expect('[')
            lines = ['switch (%s) {' % v]
            while not p.accept(']'):
                cty_ = parse_type(p); c = s.operand(p, cty_); p.expect(','); p.expect('label'); t = p.next()
                lines.append('  case %s: %s' % (c, jump(lab, t)))
            lines.append('  default: %s' % jump(lab, d)); lines.append('}')
            body.extend(lines); return
        if op == 'ret':
            ty = parse_type(p)
            if isinstance(ty, VoidTy): body.append('return;')
            else: body.append('return %s;' % s.operand(p, ty))
            return
        if op == 'fence':
            return
        if op == 'unreachable':
            body.append('VRT_UB("reached unreachable");'); return
        if op == 'phi':
            return  # handled on edges
        if op == 'extractvalue':
            ty = parse_type(p); v = s.operand(p, ty); e = v; cur = ty
            while p.accept(','):
                k = int(p.next()); r = s.resolve(cur); e += '.f%d' % k; cur = r.els[k]
            return setv(cur, e)
        if op == 'insertvalue':
            ty = parse_type(p)
            if p.peek() in ('undef', 'poison'): p.next(); base = None
            else: base = s.operand(p, ty)
            p.expect(','); ety = parse_type(p); ev = s.operand(p, ety); p.expect(','); k = int(p.next())
            if not p.done(): raise Unsupported('nested insertvalue')
            decls[dst] = s.cty(ty)
            if base is not None: body.append('%s = %s;' % (dst, base))
            body.append('%s.f%d = %s;' % (dst, k, ev)); return
        if op == 'invoke':
            s.uses_eh = True
            k = len(toks) - 1 - toks[::-1].index('to')
            call_toks = toks[:k]; call_toks[call_toks.index('invoke')] = 'call'
            s.in_invoke = True
            try:
                s.emit_instr(f, lab, call_toks, body, decls, allocas, jump)
            finally:
                s.in_invoke = False
            pp = P(toks[k:]); pp.expect('to'); pp.expect('label'); okl = pp.next(); pp.expect('unwind'); pp.expect('label'); lpad = pp.next()
            body.append('if (vrt_exc_pending) %s else %s' % (jump(lab, lpad), jump(lab, okl))); return
        if op == 'landingpad':
            s.uses_eh = True
            ty = parse_type(p)
            while not p.done():
                t = p.next()
                if t == 'cleanup': continue
                if t == 'catch':
                    cty_ = parse_type(p); tv = p.next()
                    if tv != 'null': raise Unsupported('typed catch clause (only catch (...) is modelled)')
                    continue
                raise Unsupported('landingpad clause ' + t)
            decls[dst] = s.cty(ty)
            body.append('vrt_exc_pending = 0; %s.f0 = (uint8_t*)vrt_exc_buf; %s.f1 = 0;' % (dst, dst)); return
        if op == 'resume':
            body.append('vrt_exc_pending = 1; ' + s.ret_zero(f)); return
        if op == 'call':
            while p.peek() in ('fastcc', 'noundef', 'nonnull', 'noalias', 'signext', 'zeroext', 'align', 'dereferenceable', 'dereferenceable_or_null'):
                t = p.next()
                if t == 'align': p.next()
                if t.startswith('dereferenceable'): p.expect('('); p.next(); p.expect(')')
            rty = parse_type(p)
            # `call <fnty> @f(...)` spells the whole function type only for varargs callees; a pointer-to-function here
            # is the RETURN type (a function returning a function pointer)
            if isinstance(rty, FuncTy): rty_ret = rty.ret
            else: rty_ret = rty
            callee = p.next(); p.expect('(')
            args = []; atys = []
            if not p.accept(')'):
                while True:
                    aty = parse_type(p); skip_attrs(p)
                    if p.peek() == 'metadata' or isinstance(aty, VoidTy) and p.peek().startswith('!'):
                        p.next(); args.append(None)
                    else:
                        args.append(s.operand(p, aty))
                    atys.append(aty)
                    if p.accept(')'): break
                    p.expect(',')
            if callee.startswith('@'):
                name = unq(callee)
                if name.startswith('llvm.'):
                    e = s.intrinsic(name, args, atys, rty_ret)
                    if e is None: return
                elif name == 'vassert':
                    m_ = re.fullmatch(r'\(\(uint32_t\)(\d+)ULL\)', args[1])
                    if not m_:
                        body.append('VRT_ASSERT_DYN(%s, %s);' % (args[0], args[1])); return
                    body.append('VRT_ASSERT(%s, %s);' % (args[0], m_.group(1))); return
                elif name == 'vassume':
                    body.append('VRT_ASSUME(%s);' % args[0]); return
                elif name in ('__cxa_throw', '__cxa_rethrow'):
                    s.uses_eh = True
                    body.append('vrt_exc_pending = 1;' + ('' if s.in_invoke else ' ' + s.ret_zero(f))); return
                elif name == '__cxa_allocate_exception':
                    s.uses_eh = True; e = '((uint8_t*)vrt_exc_buf)'
                elif name == '__cxa_begin_catch':
                    s.uses_eh = True; body.append('vrt_exc_pending = 0;'); e = args[0]
                elif name in ('__cxa_end_catch', '__cxa_free_exception'):
                    return
                else:
                    e = '%s(%s)' % (s.fname(name), ', '.join(args))
                    if s.exceptions and not s.in_invoke and not name.startswith(s.NOTHROW):
                        s.post_call = 'if (vrt_exc_pending) ' + s.ret_zero(f)
            else:
                fty = FuncTy(rty_ret, atys, False)
                e = '((%s)%s)(%s)' % (s.fnptr_name(fty), s.loc(callee), ', '.join(args))
            pc = s.post_call; s.post_call = None
            if dst and not isinstance(rty_ret, VoidTy):
                setv(rty_ret, e)
            else:
                body.append(e + ';')
            if pc: body.append(pc)
            return
        raise Unsupported('instruction %r' % op)

    def intrinsic(s, name, args, atys, rty):
        if name.startswith(('llvm.lifetime.', 'llvm.dbg.', 'llvm.experimental.noalias.scope.decl', 'llvm.assume',
                            'llvm.invariant.', 'llvm.prefetch')):
            return None
        if name.startswith(('llvm.memcpy.', 'llvm.memmove.', 'llvm.memset.')): s.mem_uses.add(name.split('.')[1])
        if name.startswith('llvm.memcpy.'): return 'vrt_memcpy((uint8_t*)%s, (uint8_t*)%s, %s)' % (args[0], args[1], args[2])
        if name.startswith('llvm.memmove.'): return 'vrt_memmove((uint8_t*)%s, (uint8_t*)%s, %s)' % (args[0], args[1], args[2])
        if name.startswith('llvm.memset.'): return 'vrt_memset((uint8_t*)%s, %s, %s)' % (args[0], args[1], args[2])
        m_ = re.fullmatch(r'llvm\.(fshl|fshr|bswap|ctlz|cttz|ctpop|umin|umax|smin|smax|abs)\.i(\d+)', name)
        if m_:
            return '__v%s_%s(%s)' % (m_.group(1), m_.group(2), ', '.join(a for a in args))
        m_ = re.fullmatch(r'llvm\.(uadd|usub|umul|sadd|ssub|smul)\.with\.overflow\.i(\d+)', name)
        if m_:
            lit = s.lit_name(rty)
            s.ov_helpers.add((m_.group(1), int(m_.group(2)), lit))
            return '__%s_ov_%s_%s(%s)' % (m_.group(1), m_.group(2), lit.split()[-1], ', '.join(args))
        m_ = re.fullmatch(r'llvm\.(uadd|usub)\.sat\.i(\d+)', name)
        if m_:
            return '__v%s_sat_%s(%s)' % (m_.group(1), m_.group(2), ', '.join(args))
        if name.startswith('llvm.trap'): return 'VRT_UB("llvm.trap")'
        if name.startswith('llvm.expect.'): return args[0]
        if name.startswith('llvm.objectsize.'): return '((%s)-1)' % s.cty(rty)
        if name.startswith('llvm.threadlocal.address'): return args[0]
        raise Unsupported('intrinsic ' + name)

PRELUDE = '#include "gen_prelude.h"\n'

def translate(text, keep=None, want_info=False, guard_globals=(), exceptions=False):
    m = parse_module(text)
    em = Emitter(m)
    em.guard_globals = set(guard_globals)
    em.exceptions = exceptions
    fbodies = []
    for name, f in m.funcs.items():
        em.mem_uses = set()
        fbodies.append(em.emit_func(f))
        em.fn_mem[name] = sorted(em.mem_uses)
    # globals
    glines = ['/* ---- globals ---- */']
    for name, (ty, init, const, tls) in m.globals.items():
        cn = 'G_' + cident(name)
        q = ('__thread ' if tls else '') + ('const ' if const and False else '')
        if init is None:
            glines.append('extern %s%s %s;' % (q, em.cty(ty), cn))
        else:
            try:
                ini = em.static_init(P(list(init)), ty)
            except Unsupported as e:
                raise Unsupported('global @%s: %s' % (name, e))
            glines.append('%s%s %s = %s;' % (q, em.cty(ty), cn, ini))
    # simulated threads: per-thread shadow copies of every thread_local global
    tls = [(name, ty) for name, (ty, init, const, t) in m.globals.items() if t and init is not None]
    sw = ['/* ---- simulated threads: vrt_run_on(t, fn, arg) runs fn(arg) with the thread_local globals of simulated thread t ---- */',
          '#define VRT_NTHREADS 3', 'static uint32_t vrt_cur_thread = 0;', 'static uint8_t vrt_tls_init_done = 0;']
    for name, ty in tls:
        sw.append('static %s SH_%s[VRT_NTHREADS];' % (em.cty(ty), cident(name)))
    sw.append('static void vrt_tls_switch(uint32_t t) {')
    sw.append('  if (!vrt_tls_init_done) { vrt_tls_init_done = 1;')
    for name, ty in tls:
        sw.append('    for (int i = 0; i < VRT_NTHREADS; i++) SH_%s[i] = G_%s;' % (cident(name), cident(name)))
    sw.append('  }')
    for name, ty in tls:
        sw.append('  SH_%s[vrt_cur_thread] = G_%s; G_%s = SH_%s[t];' % (cident(name), cident(name), cident(name), cident(name)))
    sw.append('  vrt_cur_thread = t;')
    sw.append('}')
    sw.append('typedef void (*vrt_thread_fn)(uint8_t*);')
    sw.append('void X_vrt_run_on(uint32_t t, vrt_thread_fn fn, uint8_t* arg) {')
    sw.append('  VRT_ASSUME(t < VRT_NTHREADS);')
    sw.append('  const uint32_t back = vrt_cur_thread; vrt_tls_switch(t); fn(arg); vrt_tls_switch(back);')
    sw.append('}')
    protos = ['/* ---- prototypes ---- */']
    for name, fty in m.decls.items():
        if name.startswith('llvm.'): continue
        if name.startswith('__CPROVER') or name == '__gxx_personality_v0': continue
        protos.append(em.proto(name, fty.ret, fty.params, fty.vararg) + ';')
    for name, f in m.funcs.items():
        protos.append(em.proto(name, f.ret, [t for t, _ in f.params]) + ';')
    types = em.emit_types()
    ehdecl = ['/* ---- exception model: a pending flag; throw sets it and returns, callers without cleanups return immediately,\n      invoke branches to the landing pad, landing pads clear it, resume sets it again (only catch (...) is modelled) ---- */',
              'static uint8_t vrt_exc_pending = 0;', 'static uint64_t vrt_exc_buf[8];']
    ginit = ['/* ---- dynamic initialisers of namespace-scope objects (llvm.global_ctors), run once at harness entry ---- */',
             'static uint8_t vrt_ginit_done = 0;', 'static void vrt_global_init_once(void);']
    ovh = ['/* ---- *.with.overflow helpers ---- */']
    for (op, bits, lit) in sorted(em.ov_helpers):
        T = em.cty(IntTy(bits)); S = em.sty(IntTy(bits)); W = 'unsigned __int128' if bits == 64 else 'uint64_t'
        SW = '__int128' if bits == 64 else 'int64_t'
        o = {'add': '+', 'sub': '-', 'mul': '*'}[op[1:]]
        if op[0] == 'u':
            if op == 'usub': ov = 'a < b'
            else: ov = '((%s)a %s (%s)b) > (%s)(%s)~(%s)0' % (W, o, W, W, T, T)
            body = '%s r; r.f0 = (%s)((%s)a %s (%s)b); r.f1 = (%s) ? 1 : 0; return r;' % (lit, T, W, o, W, ov)
        else:
            body = '%s r; %s w = (%s)(%s)a %s (%s)(%s)b; r.f0 = (%s)w; r.f1 = (w != (%s)(%s)(%s)w) ? 1 : 0; return r;' % (lit, SW, SW, S, o, SW, S, T, SW, S, T)
        ovh.append('static inline %s __%s_ov_%d_%s(%s a, %s b){ %s }' % (lit, op, bits, lit.split()[-1], T, T, body))
    types = types + ovh
    gdef = ['static void vrt_global_init_once(void) { if (vrt_ginit_done) return; vrt_ginit_done = 1; ' + ' '.join('%s();' % em.fname(c) for c in m.ctors if c in m.funcs) + ' }']
    out = [PRELUDE] + types + ehdecl + ginit + protos + glines + gdef + (sw if 'vrt_run_on' in m.decls else [])
    for fb in fbodies: out.extend(fb)
    csrc = '\n'.join(out) + '\n'
    if not want_info: return csrc
    # call graph over IR names (direct references, including address-taken functions)
    cg = {}
    known = set(m.funcs) | set(m.decls)
    for name, f in m.funcs.items():
        refs = set()
        for lab, ins in f.blocks:
            for toks in ins:
                for tk in toks:
                    if tk.startswith('@'):
                        n = m.aliases.get(unq(tk), unq(tk))
                        if n in known: refs.add(n)
        cg[name] = sorted(refs)
    mut = [name for name, (ty, init, const, tls) in m.globals.items() if not const and not tls]
    info = {'fn_mem': em.fn_mem, 'defined': list(m.funcs), 'declared': [d for d in m.decls if not d.startswith('llvm.')], 'callgraph': cg,
            'mutable_globals': mut, 'tls_globals': [n for n, g in m.globals.items() if g[3]]}
    return csrc, info

if __name__ == '__main__':
    src = open(sys.argv[1]).read()
    sys.stdout.write(translate(src))
